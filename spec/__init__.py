"""Executable spec functions and independent oracles (no fibertree imports)."""
