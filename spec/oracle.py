"""Oracles over raw fibertree object graphs.  No fibertree import: objects are inspected through their
documented public attributes (Fiber.coords, Fiber.payloads, Payload.value) and class names only."""


def is_fiber(x):
    return type(x).__name__ == "Fiber"


def is_box(x):
    return type(x).__name__ == "Payload"


def unbox(x):
    return x.value if is_box(x) else x


def raw(f):
    """Structural snapshot (explicit defaults and empty sub-fibers included)."""
    if is_fiber(f):
        return ("F", tuple((c, raw(p)) for c, p in zip(f.coords, f.payloads)))
    if is_box(f):
        return ("P", raw(f.value)) if is_fiber(f.value) or is_box(f.value) else ("P", f.value)
    return ("V", f)


def depth_of(f):
    d = 0
    while is_fiber(f):
        d += 1
        if not f.payloads:
            return d if d > 0 else 0
        f = f.payloads[0]
    return d


def content(f, default=0, prefix=()):
    """point -> non-default leaf value."""
    out = {}
    for c, p in zip(f.coords, f.payloads):
        if is_fiber(p):
            out.update(content(p, default, prefix + (c,)))
        else:
            v = unbox(p)
            if v != default:
                out[prefix + (c,)] = v
    return out


def spec_content(spec, default=0, prefix=()):
    """Same for a nested-dict spec {coord: value | dict}."""
    out = {}
    for c in sorted(spec):
        p = spec[c]
        if isinstance(p, dict):
            out.update(spec_content(p, default, prefix + (c,)))
        elif p != default:
            out[prefix + (c,)] = p
    return out


def wf_problems(f, depth=None, path="root"):
    """C01: strictly increasing coords, parallel lists, uniform leaf depth, singly boxed leaves."""
    probs = []
    if len(f.coords) != len(f.payloads):
        probs.append("%s: %d coords vs %d payloads" % (path, len(f.coords), len(f.payloads)))
    for a, b in zip(f.coords, f.coords[1:]):
        try:
            if not a < b:
                probs.append("%s: coords not strictly increasing: %r" % (path, f.coords))
                break
        except TypeError:
            probs.append("%s: incomparable coords %r" % (path, f.coords))
            break
    kinds = set()
    for c, p in zip(f.coords, f.payloads):
        if is_fiber(p):
            kinds.add("F")
            if depth is not None and depth <= 1:
                probs.append("%s[%r]: fiber below the leaf depth" % (path, c))
            probs += wf_problems(p, None if depth is None else depth - 1, "%s[%r]" % (path, c))
        elif is_box(p):
            kinds.add("P")
            if is_box(p.value) or is_fiber(p.value):
                probs.append("%s[%r]: leaf is not singly boxed: %r" % (path, c, p.value))
            if depth is not None and depth != 1:
                probs.append("%s[%r]: leaf at the wrong depth" % (path, c))
        else:
            probs.append("%s[%r]: unboxed payload %r" % (path, c, p))
    if len(kinds) > 1:
        probs.append("%s: mixed leaf and fiber payloads" % path)
    return probs


def level_fibers(root, depth):
    """Fibers at each depth 0..depth-1 by raw DFS (in DFS order)."""
    levels = [[] for _ in range(depth)]

    def walk(f, d):
        if d >= depth:
            return
        levels[d].append(f)
        for p in f.payloads:
            if is_fiber(p):
                walk(p, d + 1)
    walk(root, 0)
    return levels


def rb_problems(t):
    """C02: rank i lists exactly the fibers at depth i; owners; chaining; single root."""
    probs = []
    ranks = t.ranks
    root = t.getRoot()
    if len(ranks) == 0:
        return probs
    if not is_fiber(root):
        return probs
    levels = level_fibers(root, len(ranks))
    for i, r in enumerate(ranks):
        listed = r.getFibers()
        ids_listed = [id(x) for x in listed]
        ids_tree = [id(x) for x in levels[i]]
        if len(set(ids_listed)) != len(ids_listed):
            probs.append("rank %d lists a fiber twice" % i)
        if set(ids_listed) != set(ids_tree):
            probs.append("rank %d: %d listed, %d in tree, stale=%d missing=%d" % (
                i, len(ids_listed), len(ids_tree), len(set(ids_listed) - set(ids_tree)), len(set(ids_tree) - set(ids_listed))))
        for fb in levels[i]:
            if fb.getOwner() is not r:
                probs.append("rank %d: a fiber's owner is not its rank" % i)
                break
        nxt = ranks[i + 1] if i + 1 < len(ranks) else None
        if r.getNextRank() is not nxt:
            probs.append("rank %d: next_rank chain broken" % i)
    if [id(x) for x in ranks[0].getFibers()] != [id(root)]:
        probs.append("rank 0 is not [root]")
    return probs


def ident_set(f):
    """ids of every fiber, payload box and coords/payloads list reachable."""
    out = set()

    def walk(x):
        if is_fiber(x):
            out.add(id(x))
            out.add(id(x.coords))
            out.add(id(x.payloads))
            for p in x.payloads:
                walk(p)
        elif is_box(x):
            out.add(id(x))
    walk(f)
    return out


def tensor_snapshot(t):
    """Tree + rank-list identities + attributes: what 'exactly as it was' compares."""
    root = t.getRoot()
    return (raw(root) if is_fiber(root) else ("P", unbox(root)),
            tuple(tuple(id(x) for x in r.getFibers()) for r in t.ranks),
            tuple(t.getRankIds()), )
