"""Per-property registration: which contracts carry the property, the bounded module, the level claimed."""
from pyvc.contracts import REGISTRY

COMMON_TRUSTED = [
    "pyvc itself (VC generator, heap/list/generator encodings) -- mitigated by covers, built-in mutants, CPython cross-check",
    "z3 4.x/5.1.0 python API; cvc5 1.0.3 on z3's unknowns",
    "CPython 3.12 semantics as encoded (DESIGN 2.3 A1-A9)",
]
COMMON_ASSUMPTIONS = [
    "A1 left-to-right evaluation, short-circuit and/or",
    "A2 no monkey-patching; attribute/method resolution by declared class (class tables re-read from /repo each run)",
    "A3 binary operators follow the data-model protocol (__op__, reflected __rop__, __iop__ else fallback and rebinding)",
    "A6 id(x)==id(y) iff x is y; single-threaded",
    "Python int is unbounded: z3 Int is exact; float/other payload values are an uninterpreted sort with uninterpreted operators",
    "typed heap: every reference read from a declared field has the declared class (stores that would break this are rejected as unsupported)",
]

PROPS = {}
NOT_APPLICABLE = {}


def prop(pid, **kw):
    PROPS[pid] = kw


def contract_keys(pid):
    """Contracts verified for a property: those carrying one of its clause tags plus explicitly listed ones."""
    P = PROPS[pid]
    keys = []
    for key, c in REGISTRY.items():
        if c.trusted or c.inline or not c.verify:
            continue
        if pid in c.props() or any(m in key[0] + "::" + key[1] for m in P.get("also", [])):
            keys.append(key)
    return keys


prop("C11", level="proof", bounded=True,
     technique="deductive: pyvc VCs over the real operator methods, z3/cvc5; bounded cross-check on CPython",
     text="Every operator method of Payload and CoordPayload (value-returning, reflected, in-place, comparison, <<=) is proved "
          "against 'the same operator on the underlying values' with the operator an uninterpreted function, for both operand kinds, "
          "including result freshness / box identity, operand frames and metric counts: loop-free code, so a complete proof for all values. "
          "Fiber-level + and * (which go through union, intersection and populate) are decided by the bounded part only: "
          "exhaustive over all fiber pairs on 3 (quick) / 4 (thorough) coordinates with payloads {absent,0,1,2} and scalars {0,1,3}.",
     note="Trusted: pyvc, z3/cvc5, the Python operator-dispatch model (A3), the ghost-counter abstraction of Metrics.incCount. "
          "Operators the classes do not define (//, %, **, ^, >>) are outside the contracts (loud TypeError).",
     trusted_base=["Metrics.incCount abstracted by three ghost counters (trusted contract; checked at run time by C15's bounded part)",
                   "Fiber-level + and * (union/intersection/populate based) are decided only by the bounded part of this check"],
     assumptions=["operators on payload values are uninterpreted functions: 'the same operator on the underlying values' is proved for every value type at once",
                  "operators the classes do not define at all (//, %, **, ^, >>, unary, reflected logical) raise TypeError loudly and are outside the contracts"],
     equivalent_mutants=[])
