"""Per-property registration: which contracts carry the property, the bounded module, the level claimed."""
from pyvc.contracts import REGISTRY

COMMON_TRUSTED = [
    "pyvc itself (VC generator, heap/list/generator encodings) -- mitigated by covers, built-in mutants, CPython cross-check",
    "z3 4.x/5.1.0 python API; cvc5 1.0.3 on z3's unknowns",
    "CPython 3.12 semantics as encoded (DESIGN 2.3 A1-A9)",
]
COMMON_ASSUMPTIONS = [
    "A1 left-to-right evaluation, short-circuit and/or",
    "A2 no monkey-patching; attribute/method resolution by declared class (class tables re-read from /repo each run)",
    "A3 binary operators follow the data-model protocol (__op__, reflected __rop__, __iop__ else fallback and rebinding)",
    "A6 id(x)==id(y) iff x is y; single-threaded",
    "Python int is unbounded: z3 Int is exact; float/other payload values are an uninterpreted sort with uninterpreted operators",
    "typed heap: every reference read from a declared field has the declared class (stores that would break this are rejected as unsupported)",
]

PROPS = {}
NOT_APPLICABLE = {}


def prop(pid, **kw):
    PROPS[pid] = kw


def contract_keys(pid):
    """Contracts verified for a property: those carrying one of its clause tags plus explicitly listed ones."""
    P = PROPS[pid]
    keys = []
    for key, c in REGISTRY.items():
        if c.trusted or c.inline or not c.verify:
            continue
        if pid in c.props() or any(m in key[0] + "::" + key[1] for m in P.get("also", [])):
            keys.append(key)
    return keys


LSHIFT_EQUIV = [["__lshift__.lshift_iterator.__iter__", d] for d in
                         ("bin@line1143", "boolop@line1142", "cmp@line1141", "cmp@line1142", "cmp@line1143", "const@line1134", "const@line1141",
                          "const@line1143", "drop@line1134")]

prop("C11", level="proof", bounded=True,
     technique="deductive: pyvc VCs over the real operator methods, z3/cvc5; bounded cross-check on CPython",
     text="Every operator method of Payload and CoordPayload (value-returning, reflected, in-place, comparison, <<=) is proved "
          "against 'the same operator on the underlying values' with the operator an uninterpreted function, for both operand kinds, "
          "including result freshness / box identity, operand frames and metric counts: loop-free code, so a complete proof for all values. "
          "At fiber level, `f *= s` with a scalar s on a leaf rank traversed compressed is proved: every element keeps its coordinate and its box, every "
          "non-empty box holds the product of its old value and s, default-valued ones are left alone (from the proved Fiber.__iter__ and Payload.__imul__). "
          "The other fiber-level forms of + and * (which go through union, intersection and populate) are decided by the bounded part only: "
          "exhaustive over all fiber pairs on 3 (quick) / 4 (thorough) coordinates with payloads {absent,0,1,2} and scalars {0,1,3}.",
     note="Trusted: pyvc, z3/cvc5, the Python operator-dispatch model (A3), the ghost-counter abstraction of Metrics.incCount. "
          "Operators the classes do not define (//, %, **, ^, >>) are outside the contracts (loud TypeError).",
     also=["Fiber.__imul__"],
     trusted_base=["Metrics.incCount abstracted by three ghost counters (trusted contract; checked at run time by C15's bounded part)",
                   "Fiber-level + and * other than `fiber *= scalar` (union/intersection/populate based) are decided only by the bounded part of this check"],
     assumptions=["operators on payload values are uninterpreted functions: 'the same operator on the underlying values' is proved for every value type at once",
                  "operators the classes do not define at all (//, %, **, ^, >>, unary, reflected logical) raise TypeError loudly and are outside the contracts"],
     equivalent_mutants=[])


prop("C01", level="proof", bounded=True,
     technique="deductive: representation invariant WF as pre/post of every mutator under contract (pyvc, z3/cvc5); bounded histories as cross-check",
     text="WF (parallel lists, strictly increasing coordinates, boxed leaves) is proved to be preserved by the insertion path "
          "(_coord2pos, _create_payload, getPayloadRef, getPositionRef), append, extend, position assignment and clear, for all fibers and arguments; the "
          "constructor's order/uniqueness checks (_checkOrdered/_checkUnique) are proved to accept exactly weakly/strictly ascending coordinate lists, the "
          "populate generator (lshift) and iterRangeShapeRef are proved to keep WF at every yield and at exit; "
          "rejections (CoordinateError / monotonicity assert) are proved to leave both lists unchanged. 'Every history' follows by induction over the "
          "mutator contracts. Mutators outside pyvc's reach (updateCoords' re-sort through zip/sorted, updatePayloads with an arbitrary callable, "
          "populate bodies, fiber <<=) are decided by the bounded part only: every op of a finite universe on every tree of depth 1-2 over "
          "2-3 coordinates incl. explicit defaults and empty sub-fibers, op pairs, and seeded random histories of length 3 (quick) / 5 (thorough) at depth 2-3.",
     note="Trusted: pyvc, z3/cvc5, bisect.bisect_left (partition point of a sorted list), the leaf-rank contract of _createDefault (tier B). "
          "Integer coordinates only in the proof; tuple coordinates and interior ranks in the bounded part.",
     also=["Fiber._coord2pos", "Fiber._create_payload", "Fiber.getPayloadRef", "Fiber.getPositionRef", "Fiber.append",
           "Fiber.__setitem__", "Fiber.clear", "Fiber.setSavedPos", "Payload.maybe_box", "Fiber._checkOrdered", "Fiber._checkUnique",
           "__lshift__.lshift_iterator.__iter__", "iterRangeShapeRef"],
     equivalent_mutants=LSHIFT_EQUIV,
     trusted_base=["bisect.bisect_left returns the partition point of a sorted list", "Fiber._createDefault leaf-rank contract (bounded, tier B)"])

prop("C03", level="proof", bounded=True,
     technique="deductive: accessor contracts against the stored lists (pyvc, z3/cvc5); dict-oracle histories as bounded cross-check",
     text="getPayload (incl. allocate=False and caller default), getPayloadRef, getPosition, getPositionRef, _coord2pos (bisect and the linear "
          "search from every legal start_pos) and _create_payload are proved against the map view of a leaf-rank fiber: a read returns the stored payload "
          "object or a fresh default and changes only the saved-position bookkeeping; a reference inserts at exactly the sorted position, returns the "
          "stored object itself and shifts nothing else; the answers do not depend on start_pos (the linear search is proved to return the bisect "
          "partition point). In-place operators return self (C11 contracts), which makes the handle's updates visible. Tensor.getPayload / getPayloadRef of a 1-D "
          "tensor are proved to answer exactly as the root fiber does. Deeper points (recursion through "
          "interior ranks, default sub-fiber synthesis, deeper tensors, rank-0) are decided by the bounded part: every accessor op on every "
          "small tree at depth 1-2 and seeded random interleavings at depth 1-3 against a dict oracle with tree+rank-list snapshots around reads.",
     note="Trusted: pyvc, z3/cvc5, bisect.bisect_left; tier-B contracts of _createDefault/getDefault (ghost default), Metrics.addUse (collection off in the proof). "
          "A start_pos is legal iff start_pos==0 or coords[start_pos] <= coord (what getPayload asserts).",
     also=["Fiber._coord2pos", "Fiber._create_payload", "Fiber.getPayload", "Fiber.getPayloadRef", "Fiber.getPosition", "Fiber.getPositionRef",
           "Fiber.setSavedPos", "Payload.__ilshift__", "Payload.__iadd__", "Payload.__imul__"],
     trusted_base=["bisect.bisect_left", "Fiber._createDefault / getDefault leaf-rank contracts (tier B)"])

prop("C04", level="proof", bounded=True,
     technique="deductive: loop invariants of the real merge loops against set-membership specs (pyvc, z3/cvc5); bounded pairs as cross-check",
     text="The merge loops of a & b, a | b, a ^ b, a - b (equal-arity path, integer coordinates, leaf ranks, collection off) are proved against the "
          "truth tables stated by membership, not by a merge recursion: strictly ascending output, every output coordinate is in the right operands with "
          "the operands' own payload objects (identity), a fresh default box for the absent side that is a new object at every coordinate (none of the payloads "
          "delivered before it), mask naming exactly the sides present, termination (every iteration of every merge loop consumes an operand element), and completeness "
          "(every coordinate of the set operation is yielded) -- for all operand sequences, all interleavings, all three tail loops; operands unmodified "
          "(frame). What a fiber presents is proved too: Fiber.__iter__'s format dispatch (owner / rank attributes -> iterOccupancy = iterRange(None, None) for a "
          "compressed rank, iterActiveShape = iterRangeShape over the active range for an uncompressed leaf rank) yields a strictly ascending sequence and touches "
          "nothing, from iterRange (in-range, non-empty, own payload objects, ascending; valid start_pos irrelevant) and iterRangeShape, both proved. "
          "Bounded only: tuple coordinates and mixed arity, n-ary unrolling and leader-follower, uncompressed interior ranks, interior ranks (default sub-fiber synthesis).",
     note="Trusted: pyvc, z3/cvc5; _createDefault leaf contract (tier B); getActive() abstracted by ghost fields (tier T). Operands are traversed compressed (any rank) or "
          "uncompressed at a leaf rank holding boxes. Known finding: a - b with an uncompressed a.",
     also=["iterRange", "Payload.isEmpty", "iterators.py::__iter__", "iterOccupancy", "iterActiveShape"],
     trusted_base=["Fiber._createDefault leaf contract (tier B)", "Fiber.isEmpty ghost abstraction (tier B)", "Fiber.getActive ghost active range (tier T)"])

prop("C07", level="proof", bounded=True,
     technique="deductive: iterRange loop invariant against the filter spec, search contracts (pyvc, z3/cvc5); bounded enumeration of every traversal mode",
     text="iterRange is proved to yield exactly the stored, non-empty, in-range elements with their own payload objects in ascending order, to leave the "
          "tree unchanged (frame: saved-position bookkeeping only), and to yield the same sequence from every valid start_pos, with the saved position "
          "addressing the last element yielded. iterRangeShape is proved (any step >= 1) to visit exactly range(start, end, step), each coordinate with the "
          "stored payload object or a fresh default box, leaving the tree untouched; iterRangeShapeRef is proved (step 1) to insert exactly the visited absent "
          "coordinates, deliver the stored payload objects and disturb no other element; the populate generator that drives output traversal is proved under C05. "
          "The wrappers iterOccupancy, iterActive, iterShape and iterActiveShape and the format dispatch of Fiber.__iter__ (compressed -> stored non-empty elements "
          "ascending; uncompressed leaf -> every coordinate of the active range with a box) are proved from those contracts. "
          "Bounded only: the reference-creating wrappers (iterShapeRef/iterActiveShapeRef), iterRangeShapeRef with other steps (non-linear visited-set clause), lazy fibers (repeatable, "
          "materialise to equal eager fibers), projection (incl. reversal and intervals) and pruning: exhaustive over all fibers on 3 (quick) / 4 "
          "(thorough) coordinates, all ranges, steps, active ranges, start positions, both formats, affine transforms +-c+k, intervals.",
     note="Trusted: pyvc, z3/cvc5, tier-B contracts of getDefault/isEmpty (ghost default / emptiness).",
     also=["iterRange", "iterRangeShape", "iterRangeShapeRef", "Fiber._coord2pos", "Fiber.getPayload", "Fiber.getPayloadRef", "Fiber.setSavedPos", "Payload.isEmpty",
           "iterators.py::__iter__", "iterOccupancy", "iterActiveShape", "iterators.py::iterActive", "iterators.py::iterShape"],
     trusted_base=["Fiber.getDefault / Fiber.isEmpty ghost abstractions (tier B)", "Fiber.getActive / getShape ghost active range and shape (tier T)"])

prop("C05", level="exploration", bounded=True,
     technique="deductive contract on the real lshift generator at a leaf destination rank (pyvc, ~1240 obligations) + bounded executable contract over an enumerated small scope for nesting, interior ranks and tracing",
     text="Proved (pyvc, unbounded in fiber lengths, leaf destination rank, collection off, no start position): the real lshift_iterator.__iter__ yields exactly "
          "the source's coordinate sequence with the source's payload objects; at every yield the offered reference is the box stored at that coordinate in the "
          "destination, showing the default when it was just created; a loop body that may write any value into the offered box at each yield leaves, after the loop, "
          "no element at an offered coordinate whose value is the default (kept only what was written); the destination stays well-formed with pairwise distinct boxes "
          "at every yield and at exit; every callee precondition (getPayload start position, _create_payload(pos=) insertion position, bisect/del index) holds - "
          "that is the a_pos position arithmetic.  Proved callees: getPayload(allocate=False,start_pos), _create_payload(pos=), _coord2pos, setSavedPos, Rank.pop, "
          "Payload in-place operators.  "
          "Bounded (not proved): coordinates of the destination outside the source are untouched, interior ranks (sub-fiber creation/removal with the next-rank pop), "
          "nested populate, uncompressed sources and the source's snapshot: populate is run on the real library for destination x source pairs over 3 coordinates "
          "with payloads {absent,0,1,2} and every loop body (each offered reference assigned / accumulated / left / reset / set, all sequences up to the number of "
          "offered references), destination default 0 and 1, nested populate at depth 2 (all pairs over 2 coordinates incl. empty sub-fibers, 9 body patterns) and "
          "seeded random depth-2/3 pairs; at every yield the offered coordinate/payload/reference value, WF and the rank lists are checked, and after the loop the "
          "content, the absence of left-behind elements/sub-fibers and the source's snapshot.",
     note="Exploration level is claimed because the statement's nested / interior-rank / untouched-coordinates parts are decided only within the stated bounds; the "
          "leaf-rank generator itself is proved. Trusted for the proved part: pyvc, z3/cvc5, bisect; the loop body is modelled as an arbitrary write to the value of the "
          "box offered at that yield (a body that keeps an earlier reference and writes it later is outside the property's quantifier).",
     also=["Fiber.getPayload", "Fiber._create_payload", "Fiber._coord2pos", "Fiber.setSavedPos", "Rank.pop", "Payload.__ilshift__", "Payload.__iadd__",
           "__lshift__.lshift_iterator.__iter__"],
     # the start-position assert (lines 1141-1143) is trivially true without a start position, old_end (1134) feeds tracing only
     equivalent_mutants=LSHIFT_EQUIV,
     trusted_base=["bisect.bisect_left"])

prop("C02", level="exploration", bounded=True,
     technique="bounded: rank-bookkeeping invariant RB recomputed by an independent DFS after every step of enumerated histories; deductive core for Rank primitives",
     text="Bounded (not proved): RB (rank i lists exactly the fibers at depth i, once each, owners, chaining, single root) is checked after construction by "
          "every constructor/transform family (fromFiber, deepcopy, fromUncompressed, empty, YAML, splits, swizzle, flatten/unflatten, swap, makePopulated, "
          "a live sub-fiber handed to fromFiber) on every depth-2 tree over 2 coordinates, after every op of the op universe on each, after seeded "
          "random histories at depth 2-3, and at every yield of nested populate loops (all depth-2 pairs, sampled depth-3 pairs, 7 body patterns). "
          "Proved core: Rank.pop / Rank.clearFibers list+owner effects, the leaf insertion path (no rank effect: frame), read frames (C03/C10). "
          "The tree-walking parts (setRoot/_addFiber recursion, _instantiateDefault through callable defaults, pickle) are outside pyvc's subset.",
     note="Known findings (known_findings.json): clear / append(fiber) / position-assignment of a fiber on an owned interior fiber do not update the next rank's list.",
     also=["Rank.pop", "Rank.clearFibers", "Fiber._create_payload", "Fiber.getPayloadRef"],
     trusted_base=["pickle-based deepcopy (bounded only)"])

prop("C12", level="exploration", bounded=True,
     technique="bounded: content oracle vs the real ==/isEmpty/countValues/nonEmpty over enumerated trees; deductive core: union iterator and box comparisons",
     text="Bounded (not proved): for every tree of depth 1 (3 coordinates) and depth 2 (2 coordinates) with explicit defaults and empty sub-fibers, "
          "isEmpty / countValues / nonEmpty / deepcopy / reflexivity are compared with independently extracted content; == is compared with content "
          "equality in both directions over all depth-1 pairs, sampled depth-2 pairs and pairs differing in a single deep leaf at depth 2-3, free-standing "
          "and as tensors of different shapes; transitivity over triples; operands snapshotted. Proved core: Fiber.__eq__ is a loop over a | b, whose "
          "iterator is proved to deliver exactly the union with masks naming the sides present (C04), and Payload ==/!= / Payload.isEmpty are proved "
          "(C11); countValues of a leaf-rank fiber is proved to return the defined count of boxes whose value differs from the fiber's default, for both "
          "`recursive` settings, leaving the fiber untouched, and Tensor.countValues of a 1-D tensor returns the same count. The depth recursion of __eq__/isEmpty/countValues (map/lambda/all, default __ne__) is outside pyvc's subset.",
     note="Exploration level. Trusted for the proved core: pyvc, z3/cvc5, the ghost default of getDefault (tier B).",
     also=["__or__.or_iterator.__iter__", "Payload.__eq__", "Payload.__ne__", "Payload.isEmpty", "Fiber.countValues", "Tensor.countValues"],
     trusted_base=[])

prop("C10", level="exploration", bounded=True,
     technique="bounded: deep snapshots + object-identity sets around every operation of the two families; deductive core: modifies-frames of the contracted reads",
     text="Bounded (not proved): every value-returning tensor operation (splits, swizzle, swap, flatten, flatten twice, unflatten, merge, update*, deepcopy) "
          "on every depth-2 tree over 2 coordinates and on seeded random depth-3 operands (also operands prepared by an earlier flatten or split): operand "
          "snapshot (tree, rank lists, rank ids, shape, default, formats) identical afterwards, no shared fiber / box / list / rank / attrs / rank-id "
          "object, follow-up mutation of each side invisible to the other; fiber-level + * / // splits over all depth-1 pairs; every read-only family "
          "(reads, iteration, co-iteration, ==, queries, printing, YAML, uncompress, footprints) and image rendering (twice, byte-identical). "
          "Proved core (frames as ordinary pyvc obligations: every heap write on every path is to a local, a fresh object or a listed bookkeeping field): "
          "getPayload, getPosition, iterRange, Payload value-returning operators (the merge iterators' frames are discharged under C04).",
     note="Exploration level. pickle/copy, PIL rendering and YAML are outside pyvc; their effect is observed at run time only.",
     also=["Fiber.getPayload", "Fiber.getPosition", "iterRange", "Payload.__add__", "Payload.__mul__"],
     trusted_base=["pickle/copy (observed at run time only)"])

prop("C08", level="exploration", bounded=True,
     technique="bounded: partitions recomputed from the element list by the statement's interval rule vs the real splitters over an exhaustive small scope",
     text="Bounded (not proved): every fiber over 5 (quick) / 6 (thorough) coordinates with payloads {absent,0,1} x 4 active ranges x relativeCoords x 5 halo "
          "settings x every step (uniform), every step (equal), 6 size lists (unequal), 6 boundary lists (non-uniform); the division shorthands; nested "
          "re-splits (partitions of partitions tile the original); tensor-level splits at every depth of depth-2/3 tensors with empty sub-fibers. Checked: "
          "upper coordinates = starting boundaries of the non-empty partitions, lower coordinates = exactly the elements of the halo-extended interval in "
          "order (as offsets when relative), payloads unchanged, partition active range = interval clipped to the parent's, lossless without halos, "
          "operand unchanged. Proved core: build_elem of both splitters (relative coordinates are offsets from the partition start; the partition's "
          "active range is its interval clipped to the parent's; payload list passed through) and the halo arithmetic helpers. The partition loops "
          "themselves build lists of lists with list.index / slice membership tests, outside pyvc's subset.",
     note="Exploration level. Boundary lists start at or below the active start (the statement's 'every active element' presupposes it). "
          "Fiber.getActive is abstracted by ghost fields in the proved core (tier T).",
     also=["Splitter"],
     trusted_base=["Fiber.getActive ghost abstraction (tier T)"])

prop("C09", level="exploration", bounded=True,
     technique="bounded: content maps of transform results vs the image of the original's content under the stated coordinate map, inverses applied",
     text="Bounded (not proved): every depth-2 tree over 2 coordinates (explicit defaults, empty sub-fibers, empty tensor) x {all permutations, swap, the 5 "
          "flatten styles with unflatten, absolute/relative merge with a summing merge function, split + flatten(absolute), coordinate and payload "
          "updates at every depth}; seeded random depth 3-4 tensors with random permutations and (depth, levels, style) choices; all two-point 3-rank "
          "tensors under all 6 permutations. Each result's content map is compared with the image of the original's, results are checked for WF and "
          "rank bookkeeping, inverses (inverse permutation, unflatten) are applied and compared. Proved core (small): the coordinate map of flattening, "
          "Fiber._flattenCoords, yields exactly the stated combination for each style (tuple / pair: (upper, lower); absolute: lower; relative: upper + lower; "
          "linear: upper * shape + lower) on integer coordinates, and the insertion position flattenRanks computes with _coord2pos(coords=...) is the partition "
          "point of the list being built. The transforms themselves are outside pyvc's subset: swizzleRanks is a dictionary- and "
          "frontier-driven DFS rebuild, merge/unflatten go through sorted()/zip(*...)/recursive n-ary union; the per-element "
          "building blocks they share with other properties (union iterator, updatePayloads' callers) are covered under C04/C08.",
     note="Exploration level. Known finding: swapRanks rejects an empty fiber by assertion (pinned test).",
     also=["Fiber._flattenCoords", "Fiber._coord2pos"],
     trusted_base=[])

prop("C13", level="exploration", bounded=True,
     technique="bounded: round trips on the real converters over exhaustively enumerated rectangular nests, real YAML files and dictionary forms",
     text="Bounded (not proved): every rectangular nest for 14 dimension sets of depth 1-3 over {0,1,2} (as fiber and as tensor, leaf default 0 and 1) and "
          "seeded random nests of depth 3-4 with float entries and all-default blocks: content == non-default entries, shape == dimensions, no stored "
          "default, uncompress(shape) == the nest; YAML dump + load (real files) and fiber2dict/dict2fiber for depth-2 trees with explicit defaults and "
          "empty sub-fibers, float nests, rank-0 tensors, split/swizzled/flattened tensors (rank ids, shape, name, equality); fromRandom over seeds: "
          "reproducible, inside the shape, full at density 1. Deductive part (minimal): the dictionary form of a leaf payload is its bare value "
          "(Payload.payload2dict); _makeFiber/uncompress/dict2fiber recurse over heterogeneous nested "
          "lists and dictionaries, YAML and random are external; the union loop that uncompress relies on is proved under C04.",
     note="Exploration level. Known finding: tuple-coordinate tensors do not reload (safe_load rejects python/tuple).",
     also=["Payload.payload2dict"],
     trusted_base=["yaml, random (external)"])

prop("C14", level="exploration", bounded=True,
     technique="bounded: attributes of every transform result compared with values computed from the operand's; deductive core: build_elem active ranges",
     text="Bounded (not proved): depth-2 trees over 2 coordinates x leaf default {0,1} x per-rank format assignments x mutability x authoritative/estimated "
          "shape x every transform (split of each rank, swap, flatten/unflatten at every (depth, levels), all swizzles) and seeded random depth 3-4 "
          "tensors: rank ids renamed as documented, shape re-arranged like the ids when authoritative, leaf default / formats / mutability carried over, "
          "every stored coordinate inside the reported shape and its fiber's active range, active-range iteration == occupancy iteration; 3-rank tensors "
          "with a different authoritative size per rank under all 6 permutations; lazily produced fibers (merges, populate, prune, projections) with "
          "every combination of operand active ranges: rank id of the first operand / destination and the active range the operation defines; unowned "
          "fibers joining a tensor. Proved core: the partition active ranges computed by build_elem (C08). The carry-over blocks of the Tensor "
          "transforms are straight-line, but every setter goes through Rank/RankAttrs objects reached via dynamic owner delegation and getRankIds() "
          "comprehensions, which the current contracts do not model.",
     note="Exploration level. Known finding: multi-level flatten leaves a nested active range on flat tuple coordinates.",
     also=["Splitter"],
     trusted_base=[])

prop("C18", level="proof", bounded=True,
     technique="deductive: format.py functions against the statement's sums, with defined prefix-sum functions and a record-map model of the spec (pyvc, z3/cvc5)",
     text="Proved for all tensors and specifications: _getFiberFootprint == header + (coordinate + payload bits) x (occupancy if compressed else shape); "
          "getRank == rank header + the sum of that over rank.getFibers() (loop invariant over a defined prefix-sum function; with C02 the list is exactly "
          "the live fibers of the depth); getTensor == root + the sum over all ranks of getRank; getRoot; getElem; and _checkFillSpec with its two field "
          "helpers: every rank row ends up complete, present fields keep their values, missing ones default to 0 bits / 'C' / 'contiguous' (malformed "
          "specs exit by assertion). The specification dictionary is modelled as a record map (one array per field keyed by the rank string, with "
          "presence bits). Bounded only: getSubTree (a work-list over iterShape/iterOccupancy generators) and getFiber's point lookup, cross-checked "
          "with everything else against a raw recursive walk for every C/U assignment and widths {0,1,3} on depth 1-3 tensors.",
     note="Trusted: pyvc, z3/cvc5; Tensor.getRankIds and Fiber.getShape(all_ranks=False) abstracted by ghost fields (tier T); Fiber.__len__ proved for eager fibers.",
     also=["Fiber.__len__"],
     trusted_base=["Tensor.getRankIds ghost list (tier T)", "Fiber.getShape ghost shape (tier T)"])

prop("C19", level="exploration", bounded=True,
     technique="bounded: model totals from real intersect_i traces vs an independent merge of the raw coordinate lists; deductive core: leader-follower model",
     text="Bounded (not proved): all pairs of coordinate lists over 4 (quick) / 5 (thorough) coordinates (empty, disjoint, interleaved, identical), all "
          "pairs of two consecutive fibers over 3 coordinates and seeded random 2-3 consecutive fibers over 6, run through the real a & b with "
          "intersect_0/intersect_1 traces under a real outer loop, fed to the three models fiber by fiber and in one shot: two-finger == comparison "
          "steps of an independent two-finger merge, skip-ahead == same-side runs + matches, leader-follower == rows presented, totals independent of "
          "batching; swap counts for 2-5 sub-fibers, radices 2..5/inf, latencies 1, 2, 'N' and two payload value sets against an independent "
          "round-by-round re-computation. Proved core: LeaderFollowerIntersector.addTraces (count += rows, header discounted exactly once, hence "
          "additive over batches). The other models slice and lexicographically compare lists of trace rows, and Compute builds lists of lists "
          "through sort/bisect/pop -- outside pyvc's subset.",
     note="Exploration level.",
     also=["LeaderFollowerIntersector"],
     trusted_base=[])

prop("C20", level="exploration", bounded=True,
     technique="deductive contracts on the real leaf-rank encoders and the handle interface of the U, C and B formats (pyvc); bounded: a decoder written from the documented layouts only, applied to the real codec's output over an exhaustive small scope",
     text="Proved (pyvc, unbounded in fiber lengths and dimensions, leaf rank): encodeFiber of the three formats stores exactly what the fiber presents - "
          "C: its coordinates explicitly and the values of its boxes, in order; U: one payload entry per coordinate of the dimension holding the stored value "
          "or the default; B: a fresh mask with 1 exactly at the presented coordinates (IndexError beyond the dimension) and compressed payloads in order. "
          "coordToHandle of a C fiber (binary search with a ceil midpoint) returns the handle of the first stored coordinate not below the query, None when there "
          "is none, for every strictly ascending coordinate list; U and B map a coordinate to itself (None outside the shape for U). Scanning through the handle "
          "interface: setupSlice positions a C / U scan at the slice base, nextInSlice returns consecutive handles up to the end of the stored coordinates (C) / "
          "of the shape (U), and for B the next set mask bit at or after the scan position paired with the running payload handle, advancing both by one; "
          "handleToCoord / handleToPayload / payloadToValue address the stored coordinate / payload at that index; countLeft returns the number of set bits to the "
          "left of a mask position (defined prefix sums). getSize of a leaf fiber == words of its layout (C: coordinates + payloads; U: payloads; B: ceil(bits / "
          "word size) + payloads). All of these are also shown to leave the stored arrays untouched (frames). "
          "Bounded (not proved): interior ranks (occupancies as segment ends, depth-first order of a rank's fibers), Codec.encode's recursion through dynamically "
          "chosen format classes, the YAML output arrays, and the end-to-end statement: every fiber over 4 coordinates x {U,C,B}; coordinate lists over 9 "
          "coordinates; every other (quick) / every (thorough) depth-2 tree over 3 coordinates (explicit defaults, empty sub-fibers, all-zero tensor) x all 9 "
          "descriptors; seeded random depth-3 tensors x random descriptors; each with and without an imposed larger shape. A decoder written from the layouts alone "
          "must return exactly the original content and consume every array completely; leaf fibers are scanned through their handle interface with a stub cache; "
          "coordToHandle of every C leaf for every query; getSize of leaf fibers.",
     note="Exploration level: the end-to-end round trip is decided only within the stated bounds. Assumed (external, no source in the repository): the cache object plugged into "
          "an encoded fiber and the statistics / output dictionaries touch only their own state; math.ceil/floor(i / c) and float(i) on ints are exact (true below 2**53); "
          "Fiber.__iter__ (proved, C07) presents a strictly ascending sequence of boxes at a leaf. getSize is checked for leaf fibers only.",
     trusted_base=["external Cache / StatsDict / OutDict / OutList objects touch only their own state (trusted contracts)",
                   "math.ceil / math.floor / float on ints treated as exact integer arithmetic"])

prop("C17", level="exploration", bounded=True,
     technique="bounded: policy oracles computed independently from the traces (distinct (line, window) pairs; exhaustive optimal replacement with bypass)",
     text="Bounded (not proved): seeded well-formed read and read+write traces over loop ranks (M, K) with <= 6 (quick) / <= 8 (thorough) rows over <= 4 "
          "positions, bindings evict-on root and evict-on M, lines of 1 and 2 elements. Buffet: fills == distinct (line, eviction-window) pairs whose "
          "first access is a read, write-backs == pairs containing a write with staging-area writes (position >= shape) excluded. Cache: fills == the "
          "minimum over ALL replacement/bypass decision sequences (exhaustive search with memoisation) at every capacity from 0 to all lines in "
          "half-line steps, plus the distinct-lines / accesses bounds and monotonicity in capacity. filterTrace == point-membership filter on "
          "concordant traces; directory listing identical before and after each call. Proved core: the cache model's candidate order "
          "(ListElem.__eq__/__lt__: lexicographic on the next-use stamp, then binding position). The models themselves stream CSV files backwards "
          "through FileReadBackwards/SortedList with policy callbacks: outside pyvc's subset, and optimality is an exchange argument over whole "
          "traces that no per-function contract expresses.",
     note="Exploration level. Stamps over two loop ranks in the proved core.",
     also=["ListElem"],
     trusted_base=[])

prop("C06", level="exploration", bounded=True,
     technique="bounded composition check: generated kernels in the library's idiom on the real library vs a dense reference; deductive core = the contracts of the operators the idiom uses",
     text="The property quantifies over client programs, so no function of the repository carries it: deductively it is a corollary of contracts proved "
          "elsewhere and re-checked here -- intersection yields exactly the common coordinates with the operands' own payloads (C04), Payload * and += "
          "compute on the values and update the same box (C11), point references alias stored payloads (C03). The composition itself is bounded (not "
          "proved): a generated family of sum-of-products kernels (dot, matrix-vector, matrix-matrix, elementwise, reductions, outer product, three "
          "operands) written under /verif/bounded/kernels.py is run on the real library for every operand value assignment over {0,1,2} on tiny shapes "
          "x every loop order x both intersection styles with zero products filtered; for seeded random sparse operands with mixed signs x random "
          "uniform tilings of any subset of ranks (applied consistently to operands and output) x random legal loop orders with operands swizzled to "
          "match; and for every tile size of each rank of a matmul x all loop orders -- against a dense nested-loop reference.",
     note="Exploration level; the kernels are harness programs, never presented as repository code. Populate and swizzle/split are bounded-only (C05, C09, C08).",
     also=["__and__.and_iterator.__iter__", "Payload.__mul__", "Payload.__iadd__", "Payload.__rmul__"],
     trusted_base=[])

prop("C15", level="exploration", bounded=True,
     technique="bounded: kernels with collection on vs off and against operation counts taken by the harness; deductive core: operator count contracts + AST obligations",
     text="Proved core: every Payload/CoordPayload operator moves the three compute counters by exactly the stated amounts when collecting and not at all "
          "otherwise (ghost-counter abstraction of Metrics.incCount; the '+= onto a zero box is an update, not an add' convention is the library's pinned "
          "one), and returns the same values either way (C11 contracts are proved without assuming the flag). Structural obligations decided on the AST "
          "on every run: beginCollect unconditionally assigns every class attribute of Metrics (list read from the class) a fresh literal; in iterRange, "
          "iterRangeShape(Ref), and/or/populate iterators, getPayload(Ref) every Metrics call other than isCollecting() is control-dependent on a "
          "collection flag. Bounded (not proved): seeded random kernels of the C06 family with random subsets of (rank, trace type) registered, output "
          "sometimes pre-populated: results with collection on == off, Compute counts == operations counted by the harness, iter-trace rows == loop "
          "bodies per rank, and a second identical session after an unrelated one reproduces dump and trace files exactly.",
     note="Exploration level. Metrics' dictionaries are outside pyvc's heap model; incCount is a trusted abstraction cross-checked at run time here.",
     also=["Payload.__add__", "Payload.__radd__", "Payload.__mul__", "Payload.__rmul__", "Payload.__iadd__", "Payload.__imul__", "Payload.__ilshift__"],
     trusted_base=["Metrics.incCount ghost-counter abstraction"])

prop("C16", level="exploration", bounded=True,
     technique="bounded: every trace of generated loop nests compared row by row with an independent re-execution on plain lists",
     text="Bounded (not proved): seeded random 2-level loop nests over 3x3 operands (rows absent, empty, or holding explicit zeros): plain iteration, "
          "two-operand intersection at both ranks, populate at both ranks, with every trace type registered (iter, intersect_i, populate_i, "
          "populate_read_i / populate_write_i). Checked per trace: header == loop ranks down to the traced rank; every row has the header's width; "
          "iteration stamps lexicographically non-decreasing (strictly increasing for iter traces); rows == the accesses of an independent re-execution "
          "of the nest on plain lists, in order, with the coordinates of the element touched and its index in the fiber it was read from (destination-"
          "side populate traces: stamp order only, as the statement allows); identical files at flush thresholds 2, 3 and 1000; consumable traces "
          "deliver the same rows. No deductive part: Metrics keeps its state in nested dictionaries and tuples of lists, and trace well-formedness "
          "across a nest of generators is a history property of the calling protocol, not of one function.",
     note="Exploration level. Known finding: intersect_i positions count presented elements, not fiber indices, when empty elements are stored before.",
     trusted_base=[])
