"""Discharging obligations: z3 first, cvc5 on z3's unknown.  Never maps unknown to a violation."""
import os
import subprocess
import tempfile
import time
import z3

from .values import VStr

CVC5 = "/usr/bin/cvc5"


def _solver(ob, timeout_ms):
    s = z3.Solver()
    s.set("timeout", timeout_ms)
    for h in ob.hyps:
        s.add(h)
    s.add(VStr.distinct_axiom())
    s.add(z3.Not(ob.goal))
    return s


def discharge(ob, z3_ms=10000, cvc5_s=30, use_cvc5=True, scratch=None):
    """Sets ob.status in {'proved','refuted','unknown'}, ob.backend, ob.time, ob.detail."""
    t0 = time.time()
    # first attempt: quantifier-free hypotheses only (fewer hypotheses: a proof found this way is a proof)
    from .exec import has_quant
    qf = [h for h in ob.hyps if not has_quant(h)]
    if len(qf) < len(ob.hyps) and not has_quant(ob.goal):
        s0 = z3.Solver()
        s0.set("timeout", min(2000, z3_ms))
        for h in qf:
            s0.add(h)
        s0.add(VStr.distinct_axiom())
        s0.add(z3.Not(ob.goal))
        if s0.check() == z3.unsat:
            ob.status, ob.backend, ob.time = "proved", "z3", time.time() - t0
            return ob
    # second attempt: E-matching only (model-based instantiation off): faster and far more stable for proofs
    if len(qf) < len(ob.hyps) or has_quant(ob.goal):
        s1 = _solver(ob, z3_ms)
        s1.set("smt.mbqi", False)
        try:
            if s1.check() == z3.unsat:
                ob.status, ob.backend, ob.time = "proved", "z3", time.time() - t0
                return ob
        except z3.Z3Exception:
            pass
    s = _solver(ob, z3_ms)
    try:
        r = s.check()
    except z3.Z3Exception as e:
        r = z3.unknown
        ob.detail = "z3 exception: %s" % e
    ob.time = time.time() - t0
    if r == z3.unsat:
        ob.status, ob.backend = "proved", "z3"
        return ob
    if r == z3.sat:
        ob.status, ob.backend = "refuted", "z3"
        try:
            m = s.model()
            ob.detail = _model_text(m)
        except Exception:
            pass
        return ob
    ob.detail = (ob.detail + " z3: " + s.reason_unknown()).strip()
    if use_cvc5 and os.path.exists(CVC5):
        t1 = time.time()
        res = run_cvc5(_solver(ob, z3_ms).to_smt2(), cvc5_s, scratch)
        ob.time += time.time() - t1
        if res == "unsat":
            ob.status, ob.backend = "proved", "cvc5"
            return ob
        if res == "sat":
            ob.status, ob.backend = "refuted", "cvc5"
            return ob
        ob.detail += " cvc5: " + res
    ob.status, ob.backend = "unknown", "z3+cvc5" if use_cvc5 else "z3"
    return ob


def discharge_smt2(txt, z3_ms=10000, cvc5_s=30, use_cvc5=True):
    """Same staged strategy on an obligation shipped as SMT-LIB text (hypotheses ..., negated goal last)."""
    from .exec import has_quant, clear_memo
    clear_memo()
    t0 = time.time()
    fs = list(z3.parse_smt2_string(txt))

    def attempt(asserts, ms, **opts):
        s = z3.Solver()
        s.set("timeout", ms)
        for k, v in opts.items():
            s.set(k, v)
        for f in asserts:
            s.add(f)
        try:
            return s.check(), s
        except z3.Z3Exception:
            return z3.unknown, s
    qf = [f for f in fs[:-1] if not has_quant(f)]
    quantified = len(qf) < len(fs) - 1 or has_quant(fs[-1])
    if quantified and not has_quant(fs[-1]):
        r, _ = attempt(qf + [fs[-1]], min(2000, z3_ms))
        if r == z3.unsat:
            return dict(status="proved", backend="z3", time=time.time() - t0, detail="")
    if quantified:
        # E-matching only (model-based instantiation off): fast and stable for proofs; short budget first
        r, _ = attempt(fs, min(4000, z3_ms), **{"smt.mbqi": False})
        if r == z3.unsat:
            return dict(status="proved", backend="z3", time=time.time() - t0, detail="")
        # second opinion early: cvc5 decides many of the queries on which z3's instantiation heuristics wander
        if use_cvc5 and os.path.exists(CVC5):
            res = run_cvc5(txt, max(5, z3_ms // 1000))
            if res == "unsat":
                return dict(status="proved", backend="cvc5", time=time.time() - t0, detail="")
        r, _ = attempt(fs, z3_ms, **{"smt.mbqi": False})
        if r == z3.unsat:
            return dict(status="proved", backend="z3", time=time.time() - t0, detail="")
    r, s = attempt(fs, z3_ms)
    if r == z3.unsat:
        return dict(status="proved", backend="z3", time=time.time() - t0, detail="")
    if r == z3.sat:
        try:
            det = _model_text(s.model())
        except Exception:
            det = ""
        return dict(status="refuted", backend="z3", time=time.time() - t0, detail=det)
    detail = "z3: " + s.reason_unknown()
    if use_cvc5 and os.path.exists(CVC5) and not quantified:
        res = run_cvc5(txt, cvc5_s)
        if res == "unsat":
            return dict(status="proved", backend="cvc5", time=time.time() - t0, detail="")
        if res == "sat":
            return dict(status="refuted", backend="cvc5", time=time.time() - t0, detail="cvc5 sat")
        detail += " cvc5: " + res
    return dict(status="unknown", backend="z3+cvc5" if use_cvc5 else "z3", time=time.time() - t0, detail=detail)


def to_smt2(ob):
    s = z3.Solver()
    for h in ob.hyps:
        s.add(h)
    s.add(VStr.distinct_axiom())
    s.add(z3.Not(ob.goal))
    return s.to_smt2()


def run_cvc5(smt2, tlimit_s, scratch=None):
    d = scratch or tempfile.gettempdir()
    fd, path = tempfile.mkstemp(suffix=".smt2", dir=d)
    try:
        with os.fdopen(fd, "w") as f:
            f.write("(set-logic ALL)\n" + smt2)
        try:
            p = subprocess.run([CVC5, "--tlimit=%d" % (tlimit_s * 1000), "--full-saturate-quant", path],
                               capture_output=True, text=True, timeout=tlimit_s + 10)
        except subprocess.TimeoutExpired:
            return "timeout"
        out = p.stdout.strip().splitlines()
        if out and out[0] in ("sat", "unsat"):
            return out[0]
        return ("unknown " + " ".join(out[:1]) + " " + p.stderr.strip()[:200]).strip()
    finally:
        try:
            os.unlink(path)
        except OSError:
            pass


def _model_text(m, limit=60):
    items = []
    for d in m.decls():
        n = d.name()
        if n.startswith(("k!", "dummy!", "dflt!")):
            continue
        try:
            items.append("%s = %s" % (n, m[d]))
        except Exception:
            pass
    items.sort()
    return "; ".join(items[:limit])[:4000]


def smt2_head(ob, n=12):
    try:
        txt = _solver(ob, 1000).to_smt2()
    except Exception as e:
        return "<%s>" % e
    return "\n".join(txt.splitlines()[-n:])
