"""Spec-mode (pure, non-forking) evaluation of contract expressions into z3 terms."""
import ast
import z3

from .values import *            # noqa
from .state import *             # noqa
from . import ops, source
from .contracts import PURE_SPECS, FIELDS

_parse_cache = {}


def parse_spec(s):
    if s not in _parse_cache:
        try:
            _parse_cache[s] = ast.parse(s.strip(), mode="eval").body
        except SyntaxError as e:
            raise StaleContract("spec syntax error in %r: %s" % (s, e))
    return _parse_cache[s]


class SpecEnv:
    def __init__(self, st, env, ex, ctx, old=None):
        self.st = st          # state whose heap/cells are read
        self.env = env        # name -> V (overrides store)
        self.ex = ex
        self.ctx = ctx
        self.old = old        # State snapshot for old(...)
        self.facts = []       # heap typing facts met while evaluating


def ite_val(c, a, b):
    """z3 If lifted to values of the same shape."""
    if isinstance(a, VNone) and isinstance(b, VNone):
        return a
    if isinstance(a, VNone) or isinstance(b, VNone) or isinstance(a, VOpt) or isinstance(b, VOpt):
        ta = ty_of(a) if not isinstance(a, VNone) else None
        tb = ty_of(b) if not isinstance(b, VNone) else None
        inner = (ta if ta and ta.k != "opt" else (ta.a[0] if ta else None)) or (tb if tb.k != "opt" else tb.a[0])
        oty = Ty("opt", inner)
        a, b = coerce(a, oty), coerce(b, oty)
        return VOpt(z3.If(c, a.isnone, b.isnone), ite_val(c, a.val, b.val))
    if isinstance(a, VTuple) and isinstance(b, VTuple) and len(a.items) == len(b.items):
        return VTuple([ite_val(c, x, y) for x, y in zip(a.items, b.items)])
    if isinstance(a, (VInt, VBool)) and isinstance(b, (VInt, VBool)) and type(a) is not type(b):
        return VInt(z3.If(c, ops.to_int(a), ops.to_int(b)))
    if type(a) is type(b) and hasattr(a, "t"):
        if isinstance(a, VObj):
            return VObj(tuple(sorted(set(a.classes) | set(b.classes))), z3.If(c, a.t, b.t))
        if isinstance(a, VList):
            return VList(a.elem, z3.If(c, a.t, b.t))
        if isinstance(a, VStr):
            return VStr(None, z3.If(c, a.t, b.t))
        return type(a)(z3.If(c, a.t, b.t))
    if isinstance(a, VSeq) and isinstance(b, VSeq):
        return VSeq(a.elem, z3.If(c, a.n, b.n), [z3.If(c, x, y) for x, y in zip(a.comps, b.comps)])
    raise Unsupported("conditional spec value of different shapes: %r / %r" % (a, b))


class SpecMixin:
    def spec_bool(self, s, st, ctx, env=None, old=None):
        v, facts = self.spec_eval(s, st, ctx, env, old)
        for f in facts:
            st.assume(f)
        return self.sp_truth(v, st)

    def spec_val(self, s, st, ctx, env=None, old=None):
        v, facts = self.spec_eval(s, st, ctx, env, old)
        for f in facts:
            st.assume(f)
        return v

    def spec_eval(self, s, st, ctx, env=None, old=None):
        node = parse_spec(s) if isinstance(s, str) else s
        se = SpecEnv(st, dict(env or {}), self, ctx, old if old is not None else st.labels.get("old"))
        try:
            v = self.sp(node, se)
        except KeyError as e:
            raise StaleContract("spec %r mentions unknown name %s" % (s, e))
        return v, se.facts

    def sp_truth(self, v, st):
        if isinstance(v, VBool):
            return v.t
        return self.truth(st, v)

    def sp(self, e, se):
        m = getattr(self, "sp_" + type(e).__name__, None)
        if m is None:
            raise Unsupported("spec expression %s" % type(e).__name__)
        return m(e, se)

    def sp_Constant(self, e, se):
        c = e.value
        if c is None:
            return VNone()
        if isinstance(c, bool):
            return VBool(c)
        if isinstance(c, int):
            return VInt(c)
        if isinstance(c, str):
            return VStr(c)
        raise Unsupported("spec constant %r" % (c,))

    def sp_Name(self, e, se):
        n = e.id
        if n in se.env:
            return se.env[n]
        if n in se.st.store:
            return se.st.store[n]
        if n in ("True", "False"):
            return VBool(n == "True")
        if n == "out" and se.st.out is not None:
            return se.st.out
        if n in source.classes():
            return VFunc("class", name=n)
        # a local with a declared loop type that is not bound on this path (bound on other paths joined at the loop head):
        # an arbitrary value of that type
        c = getattr(se.ctx, "contract", None)
        if c is not None:
            for spec in c.loops.values():
                ty = (spec.get("types") or {}).get(n)
                if ty is not None:
                    v = fresh_value(se.st, parse_ty(ty), n + "!unbound")
                    se.env[n] = v
                    return v
        raise KeyError(n)

    def sp_Tuple(self, e, se):
        return VTuple([self.sp(x, se) for x in e.elts])

    def sp_load(self, se, objt, cls, attr):
        tmp = State()
        tmp.heap = se.st.heap
        tmp.cells = se.st.cells
        v = load_field(tmp, objt, cls, attr)
        se.facts += tmp.pc
        return v

    def sp_Attribute(self, e, se):
        o = self.sp(e.value, se)
        return self.sp_getattr(o, e.attr, se)

    def sp_getattr(self, o, attr, se):
        if isinstance(o, VOpt):
            return self.sp_getattr(o.val, attr, se)      # specs are total: value under None is arbitrary
        if isinstance(o, VObj):
            res = None
            having = [c for c in o.classes if field_decl(c, attr)[1] is not None]
            if not having:
                raise Unsupported("spec: attribute %s.%s is not a declared field" % ("|".join(o.classes), attr))
            for c in having:     # specs are total: for a class without the field the value is that of another class
                v = self.sp_load(se, o.t, c, attr)
                res = v if res is None else ite_val(cls_of(o.t) == class_tag(c), v, res)
            return res
        if isinstance(o, VFunc) and o.kind == "class":
            return self.sp_load(se, self.class_ref(o.name), o.name, attr)
        if isinstance(o, VSeq) and attr == "n":
            return VInt(o.n)
        if isinstance(o, VIter):
            if attr == "seq":
                return o.seq
            if attr == "cur":
                return VInt(se.st.cells[o.cell])
        if isinstance(o, VTuple) and attr in ("coord", "payload") and len(o.items) == 2:
            return o.items[0 if attr == "coord" else 1]
        raise Unsupported("spec attribute %s of %r" % (attr, o))

    def sp_Subscript(self, e, se):
        o = self.sp(e.value, se)
        if isinstance(e.slice, ast.Slice):
            raise Unsupported("slices in specs: use quantified forms")
        i = self.sp(e.slice, se)
        if isinstance(o, VOpt):
            o = o.val
        if isinstance(i, VOpt):
            i = i.val
        if isinstance(o, VTuple):
            s = z3.simplify(ops.to_int(i))
            if not z3.is_int_value(s):
                raise Unsupported("symbolic tuple index in spec")
            return o.items[s.as_long()]
        if isinstance(o, VList):
            tmp = State()
            tmp.heap = se.st.heap
            tmp.cells = se.st.cells
            it = ops.to_int(i)
            s = z3.simplify(it)
            if z3.is_int_value(s) and s.as_long() < 0:
                it = list_len(tmp, o) + it
            v = list_get(tmp, o, it)
            se.facts += tmp.pc
            return v
        if isinstance(o, VSeq):
            return seq_get(o, ops.to_int(i))
        if isinstance(o, VMap) and isinstance(i, VStr):
            return VRow(o, i.t)
        if isinstance(o, VRow) and isinstance(i, VStr) and i.s is not None:
            tmp = State()
            tmp.heap = se.st.heap
            return map_get(tmp, o, i.s)
        raise Unsupported("spec subscript of %r" % (o,))

    def sp_BoolOp(self, e, se):
        ts = [self.sp_truth(self.sp(x, se), se.st) for x in e.values]
        return VBool(z3.And(ts) if isinstance(e.op, ast.And) else z3.Or(ts))

    def sp_UnaryOp(self, e, se):
        v = self.sp(e.operand, se)
        if isinstance(e.op, ast.Not):
            return VBool(z3.Not(self.sp_truth(v, se.st)))
        if isinstance(e.op, ast.USub):
            return VInt(0 - ops.to_int(v))
        raise Unsupported("spec unary op")

    def sp_BinOp(self, e, se):
        a, b = self.sp(e.left, se), self.sp(e.right, se)
        if isinstance(a, VOpt):
            a = a.val
        if isinstance(b, VOpt):
            b = b.val
        name = ops.BINOP_NAMES[type(e.op)]
        return ops.prim_binop(name, a, b)

    def sp_IfExp(self, e, se):
        c = self.sp_truth(self.sp(e.test, se), se.st)
        return ite_val(c, self.sp(e.body, se), self.sp(e.orelse, se))

    def sp_Compare(self, e, se):
        left = self.sp(e.left, se)
        ts = []
        for op, r in zip(e.ops, e.comparators):
            right = self.sp(r, se)
            ts.append(self.sp_cmp(op, left, right, se))
            left = right
        return VBool(z3.And(ts) if len(ts) > 1 else ts[0])

    def sp_cmp(self, op, a, b, se):
        if isinstance(op, ast.Is):
            return ops.identity(a, b)
        if isinstance(op, ast.IsNot):
            return z3.Not(ops.identity(a, b))
        if isinstance(op, ast.Eq):
            return ops.val_eq(a, b)
        if isinstance(op, ast.NotEq):
            return z3.Not(ops.val_eq(a, b))
        if isinstance(a, VOpt):
            a = a.val
        if isinstance(b, VOpt):
            b = b.val
        return ops.prim_compare(ops.CMP_NAMES[type(op)], a, b)

    def sp_Call(self, e, se):
        if not isinstance(e.func, ast.Name):
            raise Unsupported("spec call of a non-name")
        f = e.func.id
        bound = se.env.get(f, se.st.store.get(f))
        if isinstance(bound, VFunc) and bound.kind == "uf":
            args = [self.sp(a, se) for a in e.args]
            ts = []
            for a, ty in zip(args, bound.argtys):
                ts += to_terms(coerce(a.val if isinstance(a, VOpt) and ty.k != "opt" else a, ty), ty)
            return from_terms([fn(*ts) for fn in bound.fns], bound.retty)
        if f == "old":
            if se.old is None:
                raise Unsupported("old() without a pre-state")
            so = State()
            so.heap = se.old.heap
            so.cells = se.old.cells
            so.store = se.old.store
            so.out = se.old.out
            s2 = SpecEnv(so, dict(se.env), self, se.ctx, se.old)
            s2.bound = getattr(se, "bound", ())
            # parameters keep their entry values
            v = self.sp(e.args[0], s2)
            se.facts += s2.facts
            return v
        if f in ("forall", "exists"):
            lam = e.args[0]
            if not isinstance(lam, ast.Lambda):
                raise Unsupported("forall/exists need a lambda")
            names = [a.arg for a in lam.args.args]
            # binder names are deterministic (name + nesting depth): the same clause evaluated twice in the same state is the
            # same term, so a goal that literally is a hypothesis is recognised without a solver (binders are abstracted
            # at once by ForAll/Exists, inner ones first, so equal names at different depths cannot capture each other)
            depth = len(getattr(se, "bound", ()))
            ks = [z3.Int("%s!q%d" % (n, depth + i)) for i, n in enumerate(names)]
            s2 = SpecEnv(se.st, dict(se.env), self, se.ctx, se.old)
            s2.bound = tuple(getattr(se, "bound", ())) + tuple(names)
            for n, kv in zip(names, ks):
                s2.env[n] = VInt(kv)
            rng = []
            if len(e.args) >= 3:
                lo = ops.to_int(self.sp(e.args[1], se))
                hi = ops.to_int(self.sp(e.args[2], se))
                for kv in ks:
                    rng.append(z3.And(lo <= kv, kv < hi))
            body = self.sp_truth(self.sp(lam.body, s2), se.st)
            facts = None     # heap-typing facts about bound-variable loads are not used inside quantifiers
            if f == "forall":
                inner = body if facts is None else z3.Implies(facts, body)
                return VBool(z3.ForAll(ks, z3.Implies(z3.And(rng), inner) if rng else inner))
            inner = body if facts is None else z3.And(facts, body)
            ex = z3.Exists(ks, z3.And(rng + [inner]))
            wit = []
            for kw in e.keywords:
                if kw.arg == "witness":
                    ws = kw.value.elts if isinstance(kw.value, (ast.List, ast.Tuple)) else [kw.value]
                    for w in ws:
                        try:
                            wvs = [ops.to_int(self.sp(x, se)) for x in (w.elts if isinstance(w, ast.Tuple) else [w])]
                        except KeyError:
                            continue     # witness names a local of the callee: only a hint, unavailable at call sites
                        if any(x is None for x in wvs) or len(wvs) != len(ks):
                            continue
                        inst = z3.substitute(z3.And(rng + [body]), *list(zip(ks, wvs)))
                        wit.append(inst)
            return VBool(z3.Or([ex] + wit) if wit else ex)
        if f == "final":
            # value of a local at the point where the clause is evaluated (bypasses the entry-value environment)
            n = e.args[0].id
            if n not in se.st.store:
                raise KeyError(n)
            v = se.st.store[n]
            return v.val if isinstance(v, VOpt) else v
        if f == "implies":
            a = self.sp_truth(self.sp(e.args[0], se), se.st)
            b = self.sp_truth(self.sp(e.args[1], se), se.st)
            return VBool(z3.Implies(a, b))
        if f == "iff":
            a = self.sp_truth(self.sp(e.args[0], se), se.st)
            b = self.sp_truth(self.sp(e.args[1], se), se.st)
            return VBool(a == b)
        args = [self.sp(a, se) for a in e.args]
        if f == "len":
            x = args[0]
            if isinstance(x, VOpt):
                x = x.val
            if isinstance(x, VList):
                tmp = State()
                tmp.heap = se.st.heap
                return VInt(list_len(tmp, x))
            if isinstance(x, VSeq):
                return VInt(x.n)
            if isinstance(x, VTuple):
                return VInt(len(x.items))
            raise Unsupported("spec len of %r" % (x,))
        if f == "isnone":
            x = args[0]
            return VBool(x.isnone if isinstance(x, VOpt) else z3.BoolVal(isinstance(x, VNone)))
        if f == "val":
            x = args[0]
            return x.val if isinstance(x, VOpt) else x
        if f == "fresh":
            x = args[0]
            if isinstance(x, VOpt):
                x = x.val
            return VBool(x.t >= se.old.cells["alloc"])
        if f == "allocated":
            x = args[0]
            return VBool(z3.And(x.t >= 1, x.t < se.st.cells["alloc"]))
        if f == "typeis":
            x, cn = args
            if isinstance(x, VOpt):
                x = x.val
            if len(x.classes) == 1:
                return VBool(x.classes[0] == cn.s)
            return VBool(cls_of(x.t) == class_tag(cn.s))
        if f == "seq":
            x = args[0]
            tmp = State()
            tmp.heap = se.st.heap
            return list_as_seq(tmp, x)
        if f == "ref":
            return VInt(args[0].t)
        if f == "has_row":
            tmp = State()
            tmp.heap = se.st.heap
            return VBool(map_has_row(tmp, args[0], args[1].t))
        if f == "has_field":
            tmp = State()
            tmp.heap = se.st.heap
            return VBool(map_has_field(tmp, args[0], args[1].s))
        if f == "map_unchanged_except":
            # every row/field of the record map other than (row, field) is as in the pre-state (presence and value)
            m, rowk, fld = args
            now, old = se.st.heap, se.old.heap
            cl = []
            kk = z3.Const(fresh_name("mk"), StrSort)
            for key in set(now) | set(old):
                if not key.startswith("map:%s." % m.name):
                    continue
                a = now.get(key)
                b = old.get(key)
                if a is None or b is None:
                    srt = (a if a is not None else b).sort()
                    a = a if a is not None else z3.Const("H0!" + key, srt)
                    b = b if b is not None else z3.Const("H0!" + key, srt)
                if a.eq(b):
                    continue
                suffix = key[len("map:%s." % m.name):]
                if suffix in (fld.s, "@has." + fld.s):
                    cl.append(z3.ForAll([kk], z3.Implies(kk != rowk.t, a[kk] == b[kk])))
                else:
                    cl.append(z3.ForAll([kk], a[kk] == b[kk]))
            return VBool(z3.And(cl) if cl else z3.BoolVal(True))
        if f == "row_filled":
            # every declared field of the row is present
            tmp = State()
            tmp.heap = se.st.heap
            row = args[0]
            only = [a.s for a in args[1:]]
            flds = only or list(VMap.FIELDS.get(row.m.name, {}))
            return VBool(z3.And([map_has_field(tmp, row, fl) for fl in flds]))
        if f in PURE_SPECS:
            return PURE_SPECS[f](self, se, *args)
        raise StaleContract("unknown spec function %r" % f)
