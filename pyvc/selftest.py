"""Engine self-test: a fixture with one deliberately broken body that must fail.
Run:  VERIF_REPO=/verif python3-vt -m pyvc.selftest
"""
import os
import sys

os.environ["VERIF_REPO"] = os.path.dirname(os.path.dirname(os.path.abspath(__file__)))

from . import source                      # noqa: E402
source.REPO = os.environ["VERIF_REPO"]
from .contracts import contract, field, REGISTRY, FIELDS   # noqa: E402
from . import speclib                     # noqa: E402,F401
from .verify import verify_case           # noqa: E402
from .solve import discharge              # noqa: E402

F = "pyvc/selftest_fixture.py"


def setup():
    REGISTRY.clear()
    FIELDS.clear()
    field("Box.v", "int")
    source.CORE_FILES.append(F)
    source._classes.clear()
    spec = dict(
        types=dict(xs="list[int]", c="int"), returns="int",
        requires=["sorted_strict(xs)"],
        ensures=["0 <= result <= len(xs)",
                 "forall(lambda k: xs[k] < c, 0, result)",
                 "forall(lambda k: xs[k] >= c, result, len(xs))"],
        loops={0: dict(invariant=["0 <= i <= len(xs)", "forall(lambda k: xs[k] < c, 0, i)"],
                       decreases="len(xs) - i")})
    contract(F, "find_first_ge", **spec)
    contract(F, "find_first_ge_broken", **spec)
    contract(F, "insert_sorted", types=dict(xs="list[int]", c="int"), returns="int",
             requires=["sorted_strict(xs)", "forall(lambda k: xs[k] != c, 0, len(xs))"],
             modifies=["list:xs"],
             ensures=["len(xs) == old(len(xs)) + 1", "sorted_strict(xs)", "xs[result] == c"])
    contract(F, "Box.__init__", types=dict(self="Box", v="int"), modifies=["self.v"], ensures=["self.v == v"])
    contract(F, "Box.bump", types=dict(self="Box", d="int"), returns="Box", modifies=["self.v"],
             ensures=["result is self", "self.v == old(self.v) + d"])
    contract(F, "evens", types=dict(n="int"), yields=dict(elem="int"),
             requires=["n >= 0"],
             ensures=["forall(lambda k: out[k] % 2 == 0 and 0 <= out[k] < n, 0, len(out))",
                      "sorted_strict(out)"],
             loops={0: dict(invariant=["forall(lambda k: out[k] % 2 == 0 and 0 <= out[k] < _i0, 0, len(out))",
                                       "sorted_strict(out)"])})


def run(verbose=False):
    setup()
    contract(F, "pick", cases=[dict(x="int"), dict(x="int", flip="bool")], case_names=["plain", "flip"], returns="int",
             per_case={"plain": dict(ensures=["result == x"]), "flip": dict(ensures=["result == (-x if flip else x)"])})
    contract(F, "use_pick_flipped", types=dict(x="int"), returns="int", ensures=["result == -x"])
    contract(F, "at", types=dict(xs="list[int]", i="int"), returns="int", modifies=[],
             raises={"IndexError": dict(when="i >= len(xs) or i < -len(xs)")},
             ensures=["result == (xs[i] if i >= 0 else xs[len(xs) + i])"])
    contract(F, "cond_bound", types=dict(n="int"), returns="int", ensures=["result == (n if n > 0 else 0)"],
             loops={0: dict(types={"i": "int", "d": "int"}, invariant=["0 <= i", "i <= n or n <= 0", "implies(n <= 0, i == 0)", "implies(n > 0, d == 1)"], decreases="n - i")})
    contract(F, "cond_bound_broken", types=dict(n="int"), returns="int", ensures=["result == 1"])
    expect = {"at": True, "cond_bound": True, "cond_bound_broken": False, "find_first_ge": True, "find_first_ge_broken": False, "insert_sorted": True,
              "Box.__init__": True, "Box.bump": True, "evens": True, "pick": True, "use_pick_flipped": True}
    ok = True
    for (f, q), c in list(REGISTRY.items()):
        r = verify_case(c, 0)
        if r.status != "ok":
            print("SELFTEST %s: generation %s: %s" % (q, r.status, r.detail))
            ok = False
            continue
        allp = True
        for ob in r.obligations:
            if ob.status is None:
                discharge(ob, z3_ms=10000, use_cvc5=False)
            if verbose:
                print("   ", ob.name, ob.status, "%.2fs" % ob.time)
            if ob.status != "proved":
                allp = False
        if not r.obligations:
            print("SELFTEST %s: zero obligations" % q)
            ok = False
        if allp != expect[q]:
            print("SELFTEST %s: expected %s, got %s" % (q, "proof" if expect[q] else "failure", "proof" if allp else "failure"))
            ok = False
        elif verbose:
            print("SELFTEST %s: %d obligations, as expected (%s)" % (q, len(r.obligations), "proved" if allp else "rejected"))
    return ok


if __name__ == "__main__":
    good = run(verbose="-v" in sys.argv)
    print("pyvc self-test:", "PASS" if good else "FAIL")
    sys.exit(0 if good else 3)
