"""pyvc -- a verification-condition generator for the subset of Python used by
fibertree.  It reads the *current* text of the functions under /repo, executes
them symbolically between cut points (entry, loop heads, yields, calls, exits),
and discharges the resulting obligations with z3 (cvc5 as second opinion).

See /verif/DESIGN.md sections 2 and Appendix B.
"""
