"""Symbolic executor: calls (builtins, contracts, inlining), locations and frames."""
import ast
import z3

from .values import *            # noqa
from .state import *             # noqa
from . import ops, source
from .exec import Ctx, Exc, BUILTINS
from .contracts import REGISTRY, FIELDS
from .stmts import loops_preorder, yields_preorder

MAX_INLINE = 12

U_isinst = {}


def u_isinstance(tname):
    if tname not in U_isinst:
        U_isinst[tname] = z3.Function("U_is_" + tname, USort, B)
    return U_isinst[tname]


class Bound(dict):
    """Parameter binding of one call; remembers which parameters were filled from their declared defaults."""
    def __init__(self, *a, **kw):
        super().__init__(*a, **kw)
        self.defaulted = set()

    def with_(self, n, v):
        b = Bound(self)
        b.defaulted = set(self.defaulted)
        b[n] = v
        return b


class CallMixin:
    # ------------------------------------------------------------ entry
    def ev_Call(self, e, st, ctx, k):
        # spec-only / ghost calls never appear in code; evaluate callee, args (with *splat), kwargs
        def got_f(st1, f):
            def got_args(st2, args):
                kws = [kw for kw in e.keywords]

                def ev_kw(i, st3, acc):
                    if i == len(kws):
                        return self.call(st3, ctx, f, args, acc, k, e)
                    kw = kws[i]
                    if kw.arg is None:
                        def splat(st4, d):
                            if not isinstance(d, VDict):
                                raise Unsupported("** of a non-literal dict")
                            acc2 = dict(acc)
                            acc2.update(d.d)
                            ev_kw(i + 1, st4, acc2)
                        return self.ev(kw.value, st3, ctx, splat)
                    self.ev(kw.value, st3, ctx, lambda st4, v: ev_kw(i + 1, st4, {**acc, kw.arg: v}))
                ev_kw(0, st2, {})
            self.ev_list(e.args, st1, ctx, got_args)
        # genexp arguments of all()/any()/tuple()/list() are handled by the builtin itself
        if isinstance(e.func, ast.Name) and e.func.id in ("all", "any", "tuple", "list", "sum") and e.func.id not in st.store \
                and len(e.args) == 1 and isinstance(e.args[0], (ast.GeneratorExp, ast.ListComp)):
            return self.comprehension_call(e.func.id, e.args[0], st, ctx, k, e)
        self.ev(e.func, st, ctx, got_f)

    def ev_GeneratorExp(self, e, st, ctx, k):
        self.comprehension_seq(e, st, ctx, lambda st1, seq: k(st1, self.make_iter(st1, seq, "genexp")))

    def ev_ListComp(self, e, st, ctx, k):
        def got(st1, seq):
            k(st1, new_list(st1, seq.elem, seq.n, seq.comps))
        self.comprehension_seq(e, st, ctx, got)

    def make_iter(self, st, seq, base, reads=()):
        cell = fresh_name(base + "_cur")
        st.cells[cell] = z3.IntVal(0)
        if reads:
            st.live_iters.append((cell, list(reads)))
        return VIter(seq, cell)

    def comprehension_seq(self, e, st, ctx, k):
        """[elt for x in src] with a pure, non-forking elt: a sequence defined pointwise."""
        if len(e.generators) != 1 or e.generators[0].ifs or e.generators[0].is_async:
            raise Unsupported("comprehension with filters or several generators (line %d)" % e.lineno)
        g = e.generators[0]

        def got_src(st1, src):
            if isinstance(src, VObj):
                return self.call_method(st1, ctx, src, "__iter__", [], {}, lambda s2, r: got_src(s2, r), e)
            cnt, el, adv, ety = self.iter_source(st1, ctx, src, e)
            if cnt is None:
                raise Unsupported("comprehension over a tuple (line %d)" % e.lineno)
            if adv is not None:
                raise Unsupported("comprehension consuming an iterator")
            kv = z3.Int(fresh_name("k"))
            sub = st1.fork()
            sub.assume(z3.And(0 <= kv, kv < cnt))
            results = []
            x = el(sub, kv)
            inner = ctx.with_(exc=lambda s, ex: (_ for _ in ()).throw(Unsupported("comprehension element may raise (line %d)" % e.lineno)))
            self.assign(g.target, x, sub, inner, lambda s2: self.ev(e.elt, s2, inner, lambda s3, v: results.append((s3, v))), e)
            if len(results) != 1:
                raise Unsupported("comprehension element forks (line %d)" % e.lineno)
            s3, v = results[0]
            if len(s3.pc) != len(sub.pc) and False:
                pass
            ty = ty_of(v)
            comps = [defined_array(st1, t.sort(), lambda k_, t=t: z3.substitute(t, (kv, k_)), "comp") for t in to_terms(v, ty)]
            # obligations raised while evaluating the element (index checks) were recorded with k free: acceptable,
            # they are universally quantified by being free constants.
            st1.heap.update({kk: vv for kk, vv in s3.heap.items() if kk not in st1.heap})
            return k(st1, VSeq(ty, z3.simplify(cnt), comps))
        self.ev(g.iter, st, ctx, got_src)

    def comprehension_call(self, fname, ge, st, ctx, k, node):
        def got(st1, seq):
            if fname in ("all", "any"):
                j = z3.Int(fresh_name("j"))
                body = self.truth(st1, seq_get(seq, j))
                rng = z3.And(0 <= j, j < seq.n)
                t = z3.ForAll([j], z3.Implies(rng, body)) if fname == "all" else z3.Exists([j], z3.And(rng, body))
                return k(st1, VBool(t))
            if fname == "list":
                return k(st1, new_list(st1, seq.elem, seq.n, seq.comps))
            if fname == "tuple":
                n = z3.simplify(seq.n)
                if z3.is_int_value(n):
                    return k(st1, VTuple([seq_get(seq, z3.IntVal(i)) for i in range(n.as_long())]))
                raise Unsupported("tuple() of a sequence of symbolic length (line %d)" % node.lineno)
            raise Unsupported("%s over a comprehension" % fname)
        self.comprehension_seq(ge, st, ctx, got)

    # ------------------------------------------------------------ dispatch
    def call(self, st, ctx, f, args, kwargs, k, node):
        line = getattr(node, "lineno", None)
        if isinstance(f, VOpt):
            return self.unwrap(st, ctx, f, node, lambda s, x: self.call(s, ctx, x, args, kwargs, k, node))
        if not isinstance(f, VFunc):
            if isinstance(f, VObj):
                return self.call_method(st, ctx, f, "__call__", args, kwargs, k, node)
            raise Unsupported("call of %r (line %s)" % (f, line))
        if f.kind == "builtin":
            return self.call_builtin(st, ctx, f.name, args, kwargs, k, node)
        if f.kind == "bound":
            o = f.obj
            if isinstance(o, VObj):
                return self.call_method(st, ctx, o, f.name, args, kwargs, k, node)
            if isinstance(o, VFunc) and o.kind == "class":
                return self.call_static(st, ctx, o.name, f.name, args, kwargs, k, node)
            if isinstance(o, VList):
                return self.call_list_method(st, ctx, o, f.name, args, kwargs, k, node)
            if isinstance(o, VTuple) and f.name == "index":
                raise Unsupported("tuple.index")
            if isinstance(o, VIter) and f.name == "__iter__":
                return k(st, o)
            if isinstance(o, (VMap, VRow)) and f.name == "keys":
                return k(st, VKeys(o))
            if isinstance(o, VStr) and f.name == "format":
                # the text produced is opaque (only ever printed or used as an opaque key)
                return k(st, VStr(None, z3.Const(fresh_name("fmt"), StrSort)))
            if isinstance(o, VStr) and f.name in ("startswith", "endswith") and len(args) == 1 and isinstance(args[0], VStr):
                if o.s is not None and args[0].s is not None:
                    return k(st, VBool(getattr(o.s, f.name)(args[0].s)))
                return k(st, VBool(z3.Function("str_" + f.name, StrSort, StrSort, z3.BoolSort())(o.t, args[0].t)))
            if isinstance(o, VDict) and f.name == "get":
                key = args[0]
                if isinstance(key, VStr) and key.s is not None:
                    return k(st, o.d.get(key.s, args[1] if len(args) > 1 else VNone()))
            raise Unsupported("method %s of %r (line %s)" % (f.name, o, line))
        if f.kind == "class":
            return self.construct(st, ctx, f.name, args, kwargs, k, node)
        if f.kind == "typeof":
            return self.construct(st, ctx, f.name, args, kwargs, k, node)
        if f.kind == "localclass":
            o = new_obj(st, "local:" + f.qual)
            self.local_classes[("local:" + f.qual)] = f
            return k(st, o)
        if f.kind == "def":
            return self.call_def(st, ctx, f, None, args, kwargs, k, node)
        if f.kind == "uf":
            return self.call_uf(st, ctx, f, args, kwargs, k, node)
        raise Unsupported("call of %r" % (f,))

    def call_uf(self, st, ctx, f, args, kwargs, k, node):
        """An unknown pure function parameter (e.g. trans_fn): an uninterpreted function of its arguments."""
        ts = []
        for a, ty in zip(args, f.argtys):
            ts += to_terms(coerce(a, ty), ty)
        res = [fn(*ts) for fn in f.fns]
        v = from_terms(list(res), f.retty)
        return k(st, v)

    # ------------------------------------------------------------ methods / functions
    def lookup_contract(self, file, qual):
        return REGISTRY.get((file, qual))

    def call_method(self, st, ctx, obj, name, args, kwargs, k, node):
        line = getattr(node, "lineno", None)

        def per_class(st1, cls):
            o1 = VObj((cls,), obj.t)
            if cls.startswith("local:"):
                lc = self.local_classes[cls]
                for b in lc.node.body:
                    if isinstance(b, ast.FunctionDef) and b.name == name:
                        fv = VFunc("def", node=b, env=None, file=lc.file, qual=lc.qual + "." + name)
                        return self.call_def(st1, ctx, fv, o1, args, kwargs, k, node)
                raise Unsupported("local class %s has no method %s" % (cls, name))
            m = source.find_method(cls, name)
            if m is None:
                if name in ("__bool__", "__len__"):
                    return k(st1, VBool(True))
                return self.raise_(st1, ctx, "AttributeError", line)
            f, qual, fnode, decos = m
            fv = VFunc("def", node=fnode, env=None, file=f, qual=qual)
            if "staticmethod" in decos:
                return self.call_def(st1, ctx, fv, None, args, kwargs, k, node)
            if "classmethod" in decos:
                return self.call_def(st1, ctx, fv, VFunc("class", name=cls), args, kwargs, k, node)
            return self.call_def(st1, ctx, fv, o1, args, kwargs, k, node)
        self.for_classes(st, obj, per_class)

    def call_static(self, st, ctx, cls, name, args, kwargs, k, node):
        m = source.find_method(cls, name)
        if m is None:
            raise Unsupported("no method %s.%s" % (cls, name))
        f, qual, fnode, decos = m
        fv = VFunc("def", node=fnode, env=None, file=f, qual=qual)
        if "staticmethod" in decos:
            return self.call_def(st, ctx, fv, None, args, kwargs, k, node)
        if "classmethod" in decos:
            return self.call_def(st, ctx, fv, VFunc("class", name=cls), args, kwargs, k, node)
        # unbound method call Class.method(obj, ...)
        return self.call_def(st, ctx, fv, None, args, kwargs, k, node)

    def bind_params(self, st, ctx, fnode, recv, args, kwargs, k, node):
        """Python parameter binding; defaults are evaluated from their AST (constants/simple exprs)."""
        a = fnode.args
        params = [x.arg for x in a.posonlyargs + a.args]
        pos = list(args)
        if recv is not None:
            pos = [recv] + pos
        bound = Bound()
        line = getattr(node, "lineno", None)
        if len(pos) > len(params) and a.vararg is None:
            return self.raise_(st, ctx, "TypeError", line)
        for n, v in zip(params, pos):
            bound[n] = v
        if a.vararg is not None:
            bound[a.vararg.arg] = VTuple(pos[len(params):])
        extra = {}
        for kname, v in kwargs.items():
            if kname in params or kname in [x.arg for x in a.kwonlyargs]:
                if kname in bound:
                    return self.raise_(st, ctx, "TypeError", line)
                bound[kname] = v
            elif a.kwarg is not None:
                extra[kname] = v
            else:
                return self.raise_(st, ctx, "TypeError", line)
        if a.kwarg is not None:
            bound[a.kwarg.arg] = VDict(extra)
        defaults = dict(zip(params[len(params) - len(a.defaults):], a.defaults))
        for x, d in zip(a.kwonlyargs, a.kw_defaults):
            if d is not None:
                defaults[x.arg] = d
        missing = [n for n in params + [x.arg for x in a.kwonlyargs] if n not in bound]

        def fill(i, st1):
            if i == len(missing):
                return k(st1, bound)
            n = missing[i]
            if n not in defaults:
                return self.raise_(st1, ctx, "TypeError", line)
            bound.defaulted.add(n)
            self.ev(defaults[n], st1, ctx, lambda st2, v: (bound.__setitem__(n, v), fill(i + 1, st2)))
        fill(0, st)

    def call_def(self, st, ctx, fv, recv, args, kwargs, k, node):
        c = None if getattr(fv, "is_lambda", False) else self.lookup_contract(fv.file, fv.qual)
        if c is not None and not c.inline:
            return self.bind_params(st, ctx, fv.node, recv, args, kwargs,
                                    lambda st1, bound: self.apply_contract(st1, ctx, c, bound, k, node), node)
        if c is None and not getattr(fv, "is_lambda", False) and fv.env is None and not self.may_inline(fv):
            raise Unsupported("callee %s::%s has no contract (line %s)" % (fv.file, fv.qual, getattr(node, "lineno", None)))
        return self.bind_params(st, ctx, fv.node, recv, args, kwargs,
                                lambda st1, bound: self.inline(st1, ctx, fv, bound, k, node), node)

    def may_inline(self, fv):
        return False

    def inline(self, st, ctx, fv, bound, k, node):
        if self.inline_depth >= MAX_INLINE:
            raise Unsupported("inline depth exceeded at %s" % fv.qual)
        for n in ast.walk(fv.node):
            if isinstance(n, (ast.Yield, ast.YieldFrom)):
                raise Unsupported("inline call of generator %s" % fv.qual)
        env = dict(fv.env) if fv.env is not None else {}
        env.update(bound)
        st.frames = st.frames + [st.store]
        st.store = env
        self.inline_depth += 1
        depth = self.inline_depth

        def leave(s):
            s.store = s.frames[-1]
            s.frames = s.frames[:-1]

        def ret(st1, v):
            leave(st1)
            self.inline_depth = depth - 1
            k(st1, v)
            self.inline_depth = depth

        def exc(st1, ex):
            leave(st1)
            self.inline_depth = depth - 1
            ctx.exc(st1, ex)
            self.inline_depth = depth
        c = self.lookup_contract(fv.file, fv.qual)
        inner = Ctx(ret=ret, brk=None, cont=None, exc=exc, file=fv.file, qual=fv.qual, contract=c,
                    loop_nodes=loops_preorder(fv.node), yield_nodes=[],
                    catching=getattr(ctx, "catching", ()), allowed_raises=getattr(ctx, "allowed_raises", ()))
        self.ex_block(fv.node.body, st, inner, lambda st1: ret(st1, VNone()))
        self.inline_depth = depth - 1

    # ------------------------------------------------------------ contracts at call sites
    def select_case(self, c, bound):
        defaulted = getattr(bound, "defaulted", None)
        for i, case in enumerate(c.cases):
            ok = True
            if defaulted is not None:
                # a case speaks about calls in which every parameter it does not list keeps its default value
                for n, v in bound.items():
                    if n in case or ("*" + n) in case or ("**" + n) in case or n in defaulted:
                        continue
                    if isinstance(v, VTuple) and not v.items:
                        continue
                    if isinstance(v, VDict) and not v.d:
                        continue
                    ok = False
                    break
                if not ok:
                    continue
            for n, ty in case.items():
                if n.startswith("*"):
                    continue
                if n not in bound or not fits(bound[n], ty):
                    ok = False
                    break
                if n in c.consts[i] and not (isinstance(bound[n], VStr) and bound[n].s == c.consts[i][n]):
                    ok = False
                    break
            if ok:
                return i
        return None

    def apply_contract(self, st, ctx, c, bound, k, node):
        line = getattr(node, "lineno", None)
        if c.yields is not None and any(m.split(":", 1)[0] in ("list", "any", "all", "obj", "map") for m in c.modifies):
            # a generator's contract describes the state after exhaustion and its effects are applied where the iterator is
            # created; that is only faithful for generators that leave everything but bookkeeping fields alone
            raise Unsupported("call of a generator that mutates lists/objects (%s): its effects interleave with the consumer (line %s)" % (c.qual, line))
        ci = self.select_case(c, bound)
        if ci is None:
            # narrow a reference of several possible classes and retry (infeasible classes are pruned by the path condition)
            for n, v in bound.items():
                if isinstance(v, VObj) and len(v.classes) > 1:
                    return self.for_classes(st, v, lambda s, cls, n=n, v=v: self.apply_contract(
                        s, ctx, c, bound.with_(n, VObj((cls,), v.t)), k, node))
                if isinstance(v, VOpt) and n in c.cases[0] and c.cases[0][n].k != "opt":
                    return self.unwrap(st, ctx, v, node, lambda s, x, n=n: self.apply_contract(s, ctx, c, bound.with_(n, x), k, node))
            raise Unsupported("no contract case of %s fits the arguments %r (line %s)" % (
                c.qual, {n: ty_of_safe(v) for n, v in bound.items()}, line))
        case = c.cases[ci]
        env = {n: (coerce(v, case[n]) if n in case else v) for n, v in bound.items()}
        tag = "call[%s]@%s" % (c.qual, line)
        self.used_contracts.add(c.key)
        for g, expr in c.ghost.items():
            env[g] = self.spec_val(expr, st, ctx, env, old=st)     # defining facts of ghost terms are assumed on this path
        pre = st.fork()
        extra = c.per_case.get(c.case_names[ci], {})
        for j, (_t, r) in enumerate(c.requires + [("", x) for x in extra.get("requires", [])]):
            self.oblige(st, "%s::requires#%d" % (tag, j), self.spec_bool(r, st, ctx, env, old=pre), line, kind="precondition")
        # allocation may advance; modifies are havocked
        a1 = z3.Int(fresh_name("alloc"))
        st.assume(a1 >= st.cells["alloc"])
        locs = self.eval_locs(c.modifies, pre, ctx, env)
        st.cells["alloc"] = a1
        self.havoc_loc_list(st, locs)
        # exceptional exits
        for exn, spec in c.raises.items():
            when = z3.BoolVal(True) if spec["when"] is None else self.spec_bool(spec["when"], pre, ctx, env, old=pre)
            if self.allows(ctx, exn):
                se = st.fork()
                se.assume(when)
                for _t, p in spec["ensures"]:
                    se.assume(self.spec_bool(p, se, ctx, env, old=pre))
                if self.feasible(se):
                    self.raise_(se, ctx, exn, line)
            else:
                self.oblige(st, "%s::cannot-raise-%s" % (tag, exn), z3.Not(when), line, kind="precondition")
        # normal exit
        rty = c.returns[ci]
        if c.yields is not None:
            seq = fresh_seq(parse_ty(c.yields["elem"]), "it")
            st.assume(seq.n >= 0)
            res = self.make_iter(st, seq, "it")
        elif rty.k == "none":
            res = VNone()
        else:
            res = fresh_value(st, rty, "ret_" + c.qual.split(".")[-1])
        env2 = dict(env)
        env2["result"] = res
        if c.yields is not None:
            env2["out"] = seq          # in a generator's contract `out` is the sequence it yields: here the callee's, never the caller's
        # the caller may import only part of a callee's postcondition (fewer hypotheses: sound, and keeps shift-style
        # clauses that feed matching loops out of proofs that only need the membership-level ones)
        caller = getattr(ctx, "contract", None)
        hide = (caller.callee_views.get(c.qual, []) if caller is not None and self.inline_depth == 0 else [])
        for _t, p in c.ensures + [("", x) for x in extra.get("ensures", [])]:
            if any(h in p for h in hide):
                continue
            st.assume(self.spec_bool(p, st, ctx, env2, old=pre))
        k(st, res)

    # ------------------------------------------------------------ locations
    def eval_locs(self, specs, st, ctx, env):
        """Evaluate modifies-clauses to concrete location descriptors in state st."""
        out = []
        for s in specs:
            s = s.strip()
            kind = "field"
            if ":" in s and s.split(":", 1)[0] in ("list", "obj", "any", "all", "cell", "map"):
                kind, s = s.split(":", 1)
            if kind == "map":           # map:Class.field  -> the whole record map
                out.append(("map", s))
                continue
            if kind == "any":           # any:Class.field  -> whole field array
                cls, fname = s.split(".")
                out.append(("keys", [kk for kk, _ in field_keys(cls, fname)]))
                continue
            if kind == "all":           # all:Class  -> every field of the class singleton (static state)
                out.append(("static", s))
                continue
            if kind == "list":
                v = self.spec_val(s, st, ctx, env)
                if isinstance(v, VOpt):
                    v = v.val
                if not isinstance(v, VList):
                    raise StaleContract("modifies list:%s is not a list" % s)
                out.append(("list", v))
                continue
            if kind == "obj":
                v = self.spec_val(s, st, ctx, env)
                out.append(("obj", v))
                continue
            node = ast.parse(s, mode="eval").body
            if not isinstance(node, ast.Attribute):
                raise StaleContract("modifies clause %r is not obj.field" % s)
            o = self.spec_val(node.value, st, ctx, env)
            if isinstance(o, VOpt):
                o = o.val
            if isinstance(o, VFunc) and o.kind == "class":
                out.append(("field", self.class_ref(o.name), field_keys(o.name, node.attr)))
            else:
                keys = []
                for cl in o.classes:
                    if field_decl(cl, node.attr)[1] is not None:
                        keys += field_keys(cl, node.attr)
                if not keys:
                    raise StaleContract("modifies clause %r names no declared field" % s)
                out.append(("field", o.t, keys))
        return out

    def havoc_loc_list(self, st, locs):
        for loc in locs:
            if loc[0] == "keys":
                for key in loc[1]:
                    if key in st.heap:
                        st.heap[key] = z3.Const(fresh_name("H!" + key), st.heap[key].sort())
                    else:
                        pass   # never constrained so far: lazily created later under the same initial name is unsound
            elif loc[0] == "map":
                for key in list(st.heap):
                    if key.startswith("map:%s." % loc[1]):
                        st.heap[key] = z3.Const(fresh_name("H!" + key), st.heap[key].sort())
                st.map_epoch = fresh_name("mapepoch")
            elif loc[0] == "static":
                cls = loc[1]
                ref = self.class_ref(cls)
                for fk, ty in FIELDS.items():
                    if fk.startswith(cls + "."):
                        for key, s in field_keys(cls, fk.split(".", 1)[1]):
                            st.heap[key] = z3.Store(harr(st, key, s), ref, z3.Const(fresh_name("hv"), s))
            elif loc[0] == "list":
                lst = loc[1]
                if lst.elem is None:
                    continue
                n = z3.Int(fresh_name("len"))
                st.assume(n >= 0)
                list_set_arrays(st, lst, n, fresh_arrays(lst.elem, "hv"))
            elif loc[0] == "obj":
                o = loc[1]
                for cl in o.classes:
                    for fk in FIELDS:
                        if fk.startswith(cl + "."):
                            for key, s in field_keys(cl, fk.split(".", 1)[1]):
                                st.heap[key] = z3.Store(harr(st, key, s), o.t, z3.Const(fresh_name("hv"), s))
            else:
                _, objt, keys = loc
                for key, s in keys:
                    st.heap[key] = z3.Store(harr(st, key, s), objt, z3.Const(fresh_name("hv"), s))

    def havoc_locs(self, st, ctx, specs):
        locs = self.eval_locs(specs, st, ctx, {})
        self.havoc_loc_list(st, locs)
        return locs

    def frame_obligations(self, st, pre, locs, what, line=None):
        """Everything allocated in `pre` and not named by locs is unchanged between pre and st."""
        whole = set()
        by_key = {}
        lists = []
        objs = []
        statics = []
        maps = []
        for loc in locs:
            if loc[0] == "keys":
                whole.update(loc[1])
            elif loc[0] == "map":
                maps.append("map:%s." % loc[1])
            elif loc[0] == "list":
                lists.append(loc[1].t)
            elif loc[0] == "obj":
                objs.append(loc[1].t)
            elif loc[0] == "static":
                statics.append(self.class_ref(loc[1]))
            else:
                for key, _s in loc[2]:
                    by_key.setdefault(key, []).append(loc[1])
        a0 = pre.cells["alloc"]
        for key, now in st.heap.items():
            before = pre.heap.get(key)
            if before is None:
                before = z3.Const("H0!" + key, now.sort())
            if now.eq(before) or key in whole or any(key.startswith(m) for m in maps):
                continue
            if key.startswith("map:"):
                kk = z3.Const(fresh_name("mk"), now.sort().domain())
                self.oblige(st, "%s::frame[%s]" % (what, key), z3.Select(now, kk) == z3.Select(before, kk), line, kind="frame")
                continue
            o = z3.Int(fresh_name("o"))
            excl = list(by_key.get(key, [])) + objs
            if key.startswith("@"):
                excl = excl + lists
            else:
                cls = key.split(".")[0]
                excl = excl + [r for r in statics if r.eq(self.class_ref(cls))]
            hyp = z3.And(o < a0, o != 0, *[o != x for x in excl])
            goal = z3.Implies(hyp, z3.Select(now, o) == z3.Select(before, o))
            self.oblige(st, "%s::frame[%s]" % (what, key), goal, line, kind="frame")

    # ------------------------------------------------------------ constructors
    def construct(self, st, ctx, cls, args, kwargs, k, node):
        line = getattr(node, "lineno", None)
        if cls in ("AssertionError", "ValueError", "TypeError", "CoordinateError", "PayloadError", "Exception"):
            return k(st, VFunc("excinst", name=cls))
        newm = source.find_method(cls, "__new__")
        initm = source.find_method(cls, "__init__")
        c_init = self.lookup_contract(initm[0], initm[1]) if initm else None
        if newm is not None:
            f, qual, fnode, decos = newm
            fv = VFunc("def", node=fnode, env=None, file=f, qual=qual)

            def after_new(st1, o):
                # Python calls __init__ again when __new__ returned an instance of cls
                if isinstance(o, VObj) and len(o.classes) == 1 and source.is_subclass(o.classes[0], cls) and initm:
                    return self.call_method(st1, ctx, o, "__init__", args, kwargs, lambda s2, _r: k(s2, o), node)
                return k(st1, o)
            return self.call_def(st, ctx, fv, VFunc("class", name=cls), args, kwargs, after_new, node)
        o = new_obj(st, cls)
        if initm is None:
            return k(st, o)
        self.call_method(st, ctx, o, "__init__", args, kwargs, lambda s2, _r: k(s2, o), node)

    # ------------------------------------------------------------ list methods
    def call_list_method(self, st, ctx, lst, name, args, kwargs, k, node):
        line = getattr(node, "lineno", None)
        n = list_len(st, lst)
        if name == "append":
            self.adopt_elem(lst, args[0])
            self.list_write_check(st, lst, line)
            list_append(st, lst, args[0])
            return k(st, VNone())
        if name == "insert":
            pos = ops.to_int(args[0])
            self.adopt_elem(lst, args[1])
            self.oblige(st, "line%s::insert-position-in-range" % line, z3.And(0 <= pos, pos <= n), line)
            self.list_write_check(st, lst, line)
            list_insert(st, lst, pos, args[1])
            return k(st, VNone())
        if name == "pop":
            self.list_write_check(st, lst, line)
            if args:
                i = self.norm_index(st, ops.to_int(args[0]), n)
                self.oblige(st, "line%s::pop-index-in-range" % line, z3.And(0 <= i, i < n), line)
                v = list_get(st, lst, i)
                list_delete(st, lst, i)
                return k(st, v)

            def nonempty(s):
                v = list_get(s, lst, n - 1)
                list_set_arrays(s, lst, n - 1, list_arrays(s, lst))
                k(s, v)
            if self.allows(ctx, "IndexError"):
                return self.branch(st, n > 0, nonempty, lambda s: self.raise_(s, ctx, "IndexError", line))
            self.oblige(st, "line%s::pop-nonempty" % line, n > 0, line)
            return nonempty(st)
        if name == "clear":
            self.list_write_check(st, lst, line)
            list_set_arrays(st, lst, z3.IntVal(0), list_arrays(st, lst) if lst.elem is not None else [])
            return k(st, VNone())
        if name == "extend":
            other = args[0]
            if isinstance(other, VList):
                self.list_write_check(st, lst, line)
                if lst.elem is None:
                    lst.elem = other.elem
                tmp = list_concat(st, lst, other)
                list_set_arrays(st, lst, list_len(st, tmp), list_arrays(st, tmp))
                return k(st, VNone())
        if name == "copy":
            return k(st, new_list(st, lst.elem, n, list_arrays(st, lst)))
        if name == "index":
            v = coerce(args[0], lst.elem)
            r = z3.Int(fresh_name("idx"))
            arrs = list_arrays(st, lst)
            ts = to_terms(v, lst.elem)
            j = z3.Int(fresh_name("j"))
            found = z3.And(0 <= r, r < n, *[a[r] == t for a, t in zip(arrs, ts)])
            first = z3.ForAll([j], z3.Implies(z3.And(0 <= j, j < r), z3.Not(z3.And(*[a[j] == t for a, t in zip(arrs, ts)]))))
            ex = z3.Exists([j], z3.And(0 <= j, j < n, *[a[j] == t for a, t in zip(arrs, ts)]))

            def ok(s):
                s.assume(found)
                s.assume(first)
                k(s, VInt(r))
            if self.allows(ctx, "ValueError"):
                return self.branch(st, ex, ok, lambda s: self.raise_(s, ctx, "ValueError", line))
            self.oblige(st, "line%s::index-value-present" % line, ex, line)
            return ok(st)
        raise Unsupported("list method %s (line %s)" % (name, line))

    # ------------------------------------------------------------ builtins
    def call_builtin(self, st, ctx, name, args, kwargs, k, node):
        line = getattr(node, "lineno", None)
        if name == "len":
            x = args[0]
            if isinstance(x, VOpt):
                return self.unwrap(st, ctx, x, node, lambda s, y: self.call_builtin(s, ctx, name, [y], kwargs, k, node))
            if isinstance(x, VList):
                return k(st, VInt(list_len(st, x)))
            if isinstance(x, VTuple):
                return k(st, VInt(len(x.items)))
            if isinstance(x, VSeq):
                return k(st, VInt(x.n))
            if isinstance(x, VStr) and x.s is not None:
                return k(st, VInt(len(x.s)))
            if isinstance(x, VObj):
                def len_of(st1, cls):
                    if not cls.startswith("local:") and source.find_method(cls, "__len__") is None:
                        return self.raise_(st1, ctx, "TypeError", line)      # object of type ... has no len()
                    return self.call_method(st1, ctx, VObj((cls,), x.t), "__len__", [], {}, k, node)
                return self.for_classes(st, x, len_of)
            if isinstance(x, VRow):
                return k(st, VInt(map_row_len(st, x)))
            if isinstance(x, (VInt, VBool, VNone)):
                return self.raise_(st, ctx, "TypeError", line)
            raise Unsupported("len of %r" % (x,))
        if name == "range":
            xs = [ops.to_int(a.val if isinstance(a, VOpt) else a) for a in args]
            if any(x is None for x in xs):
                raise Unsupported("range of non-int")
            lo, hi, step = (z3.IntVal(0), xs[0], z3.IntVal(1)) if len(xs) == 1 else (
                (xs[0], xs[1], z3.IntVal(1)) if len(xs) == 2 else xs)
            return k(st, VFunc("range", lo=lo, hi=hi, step=step))
        if name == "enumerate":
            start = ops.to_int(args[1]) if len(args) > 1 else (ops.to_int(kwargs["start"]) if "start" in kwargs else 0)
            return k(st, VFunc("enumerate", inner=args[0], start=start))
        if name == "zip":
            return k(st, VFunc("zip", inners=list(args)))
        if name == "reversed":
            x = args[0]
            if isinstance(x, VTuple):
                return k(st, VTuple(list(reversed(x.items))))
            return k(st, VFunc("reversed", inner=x))
        if name == "isinstance":
            return self.do_isinstance(st, ctx, args[0], args[1], k, node)
        if name == "type":
            x = args[0]
            if isinstance(x, VOpt):
                return self.branch(st, x.isnone, lambda s: self.call_builtin(s, ctx, name, [VNone()], kwargs, k, node),
                                   lambda s: self.call_builtin(s, ctx, name, [x.val], kwargs, k, node))
            if isinstance(x, VObj):
                return self.for_classes(st, x, lambda s, c: k(s, VFunc("typeof", name=c)))
            tn = {VInt: "int", VBool: "bool", VStr: "str", VTuple: "tuple", VList: "list", VNone: "NoneType", VU: "<scalar>"}.get(type(x))
            if tn is None:
                raise Unsupported("type() of %r" % (x,))
            return k(st, VFunc("typeof", name=tn))
        if name == "id":
            x = args[0]
            if isinstance(x, (VObj, VList)):
                return k(st, VInt(x.t))
            raise Unsupported("id of %r" % (x,))
        if name == "float" and len(args) == 1 and ops.to_int(args[0]) is not None:
            # float(i) of an int, only ever fed to the ceil/floor(i / c) idiom: kept exact (see the assumption recorded there)
            self.assumptions.add("float(i) of an int is treated as exact (true while |i| < 2**53)")
            return k(st, VInt(ops.to_int(args[0])))
        if name in ("min", "max") and len(args) == 1 and isinstance(args[0], VList) and args[0].elem.k == "int" and not kwargs:
            # min / max of a list of ints: an element of the list that bounds all the others (ValueError on an empty list)
            xs = args[0]
            n = list_len(st, xs)
            arr = list_arrays(st, xs)[0]

            def nonempty(s_):
                r, w, j = z3.Int(fresh_name(name)), z3.Int(fresh_name("at")), z3.Int("j!b")
                s_.assume(z3.And(0 <= w, w < n, arr[w] == r))
                s_.assume(z3.ForAll([j], z3.Implies(z3.And(0 <= j, j < n), (r <= arr[j]) if name == "min" else (r >= arr[j]))))
                return k(s_, VInt(r))
            return self.branch(st, n > 0, nonempty, lambda s_: self.raise_(s_, ctx, "ValueError", line))
        if name in ("min", "max") and len(args) == 2 and all(ops.to_int(a) is not None for a in args):
            a, b = ops.to_int(args[0]), ops.to_int(args[1])
            return k(st, VInt(z3.If(a <= b, a, b) if name == "min" else z3.If(a >= b, a, b)))
        if name == "abs" and ops.to_int(args[0]) is not None:
            a = ops.to_int(args[0])
            return k(st, VInt(z3.If(a >= 0, a, 0 - a)))
        if name == "int":
            x = args[0]
            if isinstance(x, (VInt, VBool)):
                return k(st, VInt(ops.to_int(x)))
            raise Unsupported("int() of %r" % (x,))
        if name == "bool":
            return self.truth_fork(st, ctx, args[0], lambda s: k(s, VBool(True)), lambda s: k(s, VBool(False)))
        if name == "str":
            x = args[0]
            if isinstance(x, VStr):
                return k(st, x)
            if isinstance(x, VInt):
                s = z3.simplify(x.t)
                if z3.is_int_value(s):
                    return k(st, VStr(str(s.as_long())))
                return k(st, VStr(None, z3.Function("str_of_int", I, StrSort)(x.t)))
            if isinstance(x, VU):
                return k(st, VStr(None, z3.Function("str_of_u", USort, StrSort)(x.t)))
            if isinstance(x, VNone):
                return k(st, VStr("None"))
            if isinstance(x, VOpt):
                return self.branch(st, x.isnone, lambda s: k(s, VStr("None")),
                                   lambda s: self.call_builtin(s, ctx, name, [x.val], kwargs, k, node))
            raise Unsupported("str() of %r" % (x,))
        if name == "tuple":
            x = args[0] if args else VTuple([])
            if isinstance(x, VTuple):
                return k(st, x)
            if isinstance(x, VFunc) and x.kind == "reversed" and isinstance(x.inner, VTuple):
                return k(st, VTuple(list(reversed(x.inner.items))))
            if isinstance(x, VList):
                n = z3.simplify(list_len(st, x))
                if z3.is_int_value(n):
                    return k(st, VTuple([list_get(st, x, z3.IntVal(i)) for i in range(n.as_long())]))
            raise Unsupported("tuple() of %r (line %s)" % (x, line))
        if name == "list":
            if not args:
                return k(st, new_list(st, None, z3.IntVal(0), []))
            x = args[0]
            if isinstance(x, VList):
                return k(st, new_list(st, x.elem, list_len(st, x), list_arrays(st, x)))
            cnt, el, adv, ety = self.iter_source(st, ctx, x, node)
            if cnt is not None and adv is None:
                kv = z3.Int(fresh_name("k"))
                v = el(st, kv)
                comps = [defined_array(st, t.sort(), lambda k_, t=t: z3.substitute(t, (kv, k_)), "lst") for t in to_terms(coerce(v, ety), ety)]
                return k(st, new_list(st, ety, z3.simplify(cnt), comps))
            raise Unsupported("list() of %r" % (x,))
        if name == "next":
            it = args[0]
            if not isinstance(it, VIter):
                raise Unsupported("next() of %r" % (it,))
            cur = st.cells[it.cell]

            def has(s):
                s.cells[it.cell] = cur + 1
                k(s, seq_get(it.seq, cur))
            return self.branch(st, cur < it.seq.n, has, lambda s: self.raise_(s, ctx, "StopIteration", line))
        if name == "iter":
            x = args[0]
            if isinstance(x, VIter):
                return k(st, x)
            if isinstance(x, VObj):
                return self.call_method(st, ctx, x, "__iter__", [], {}, k, node)
            if isinstance(x, VList):
                return k(st, self.make_iter(st, list_as_seq(st, x), "listiter", reads=[x.t]))
            raise Unsupported("iter() of %r" % (x,))
        if name == "print":
            self.notes.append("print at line %s dropped" % line)
            return k(st, VNone())
        if name in ("bisect.bisect_left", "bisect.bisect_right", "bisect.bisect"):
            if name == "bisect.bisect":
                name = "bisect.bisect_right"            # the module's alias
            xs, c = args[0], args[1]
            if isinstance(c, VOpt):
                return self.unwrap(st, ctx, c, node, lambda s, x: self.call_builtin(s, ctx, name, [xs, x] + list(args[2:]), kwargs, k, node))
            if not isinstance(xs, VList) or ops.to_int(c) is None:
                raise Unsupported("bisect on %r" % (xs,))
            ct = ops.to_int(c)
            n = list_len(st, xs)
            arr = list_arrays(st, xs)[0]
            # optional search window lo (third positional or keyword), hi not modelled
            lo = args[2] if len(args) > 2 else kwargs.get("lo")
            if len(args) > 3 or "hi" in kwargs or "key" in kwargs:
                raise Unsupported("bisect with hi= / key=")
            if lo is None:
                lo_t = z3.IntVal(0)
            else:
                lo_t = ops.to_int(lo.val if isinstance(lo, VOpt) else lo)
                if lo_t is None:
                    raise Unsupported("bisect lo=%r" % (lo,))
                # CPython: ValueError for a negative lo; lo beyond the end returns lo itself (modelled only inside the list)
                self.oblige(st, "line%s::bisect-lo-in-range" % line, z3.And(0 <= lo_t, lo_t <= n), line, kind="precondition")
            i, j = z3.Int(fresh_name("i")), z3.Int(fresh_name("j"))
            self.oblige(st, "line%s::bisect-requires-sorted" % line,
                        z3.ForAll([i, j], z3.Implies(z3.And(lo_t <= i, i < j, j < n), arr[i] <= arr[j])), line, kind="precondition")
            self.assumptions.add("bisect.%s returns the partition point of a sorted list (trusted)" % name.split(".")[1])
            r = z3.Int(fresh_name("bis"))
            st.assume(z3.And(lo_t <= r, r <= n))
            kk = z3.Int(fresh_name("k"))
            if name.endswith("left"):
                st.assume(z3.ForAll([kk], z3.Implies(z3.And(lo_t <= kk, kk < r), arr[kk] < ct)))
                st.assume(z3.ForAll([kk], z3.Implies(z3.And(r <= kk, kk < n), arr[kk] >= ct)))
            else:
                st.assume(z3.ForAll([kk], z3.Implies(z3.And(lo_t <= kk, kk < r), arr[kk] <= ct)))
                st.assume(z3.ForAll([kk], z3.Implies(z3.And(r <= kk, kk < n), arr[kk] > ct)))
            return k(st, VInt(r))
        if name == "super":
            return k(st, VFunc("super"))
        if name == "object.__new__":
            c = args[0]
            if not (isinstance(c, VFunc) and c.kind == "class"):
                raise Unsupported("object.__new__ of %r" % (c,))
            return k(st, new_obj(st, c.name))
        if name in ("math.ceil", "math.floor"):
            # only the idiom ceil/floor(i / c) with ints i and a positive literal c: exact rational arithmetic
            x = args[0]
            xi = ops.to_int(x)
            if xi is not None:
                return k(st, VInt(xi))
            if isinstance(x, VU) and z3.is_app(x.t) and x.t.decl().name() == "U_truediv":
                a, b = x.t.children()
                if all(z3.is_app(y) and y.decl().name() == ops.u_of_int(z3.IntVal(0)).decl().name() for y in (a, b)):
                    ai, bi = a.children()[0], z3.simplify(b.children()[0])
                    if not z3.is_int_value(bi):
                        self.oblige(st, "line%s::%s-divisor-positive" % (line, name.split(".")[1]), bi > 0, line)
                    if not z3.is_int_value(bi) or bi.as_long() > 0:
                        self.assumptions.add("%s(i / c) on ints is evaluated in exact arithmetic (CPython goes through a float: exact while |i| < 2**53)" % name)
                        if name == "math.floor":
                            return k(st, VInt(ai / bi))            # z3 integer division: floor for a positive divisor
                        return k(st, VInt(-((-ai) / bi)))
            raise Unsupported(name + " of %r" % (x,))
        raise Unsupported("builtin %s (line %s)" % (name, line))

    def do_isinstance(self, st, ctx, x, cl, k, node):
        names = []
        for c in (cl.items if isinstance(cl, VTuple) else [cl]):
            if isinstance(c, VFunc) and c.kind in ("class", "typeof", "builtin"):
                names.append(c.name)
            else:
                raise Unsupported("isinstance against %r" % (c,))
        if isinstance(x, VOpt):
            return self.branch(st, x.isnone, lambda s: self.do_isinstance(s, ctx, VNone(), cl, k, node),
                               lambda s: self.do_isinstance(s, ctx, x.val, cl, k, node))
        if isinstance(x, VObj):
            hits = [c for c in x.classes if any(source.is_subclass(c, n) for n in names)]
            if len(hits) == len(x.classes):
                return k(st, VBool(True))
            if not hits:
                return k(st, VBool(False))
            return k(st, VBool(z3.Or([cls_of(x.t) == class_tag(c) for c in hits])))
        prim = {VInt: {"int", "numbers.Number"}, VBool: {"bool", "int", "numbers.Number"}, VStr: {"str"}, VTuple: {"tuple"}, VList: {"list"},
                VNone: set(), VFunc: set(), VDict: {"dict"}}
        for ty, ns in prim.items():
            if isinstance(x, ty):
                return k(st, VBool(bool(ns & set(names))))
        if isinstance(x, VU):
            scal = {"bool", "float", "int", "str", "tuple", "frozenset"}
            tn = set(names) & scal
            if {"int", "float"} <= tn and len(tn) >= 5:
                self.assumptions.add("an opaque payload value is one of bool/float/int/str/tuple/frozenset (boxable)")
                return k(st, VBool(True))
            if not tn:
                return k(st, VBool(False))
            return k(st, VBool(z3.Or([u_isinstance(n)(x.t) for n in sorted(tn)])))
        raise Unsupported("isinstance of %r" % (x,))


def ty_of_safe(v):
    try:
        return ty_of(v)
    except Exception:
        return repr(v)
