"""Locating the real functions in /repo's working tree (re-read on every run)."""
import ast
import hashlib
import os

from .values import StaleContract

REPO = os.environ.get("VERIF_REPO", "/repo")

_cache = {}


def module_ast(relfile):
    path = os.path.join(REPO, relfile)
    if path not in _cache:
        with open(path) as f:
            text = f.read()
        _cache[path] = (ast.parse(text, filename=path), text)
    return _cache[path]


def clear_cache():
    _cache.clear()
    _classes.clear()


def locate(relfile, qual):
    """Return the FunctionDef/ClassDef node named by a dotted path through nested defs/classes."""
    tree, _ = module_ast(relfile)
    node = tree
    for part in qual.split("."):
        found = None
        for child in ast.walk(node) if False else _body_defs(node):
            if child.name == part:
                found = child
        if found is None:
            raise StaleContract("%s :: %s : no definition %r" % (relfile, qual, part))
        node = found
    return node


def _body_defs(node):
    """Definitions directly inside node's body, at any statement nesting depth but not inside other defs."""
    out = []

    def walk(stmts):
        for s in stmts:
            if isinstance(s, (ast.FunctionDef, ast.ClassDef)):
                out.append(s)
            else:
                for fld in ("body", "orelse", "finalbody", "handlers"):
                    sub = getattr(s, fld, None)
                    if isinstance(sub, list):
                        walk([x for x in sub if isinstance(x, ast.stmt)] +
                             [y for x in sub if isinstance(x, ast.ExceptHandler) for y in x.body])

    walk(node.body)
    return out


def source_info(relfile, node):
    _, text = module_ast(relfile)
    lines = text.splitlines(keepends=True)
    seg = "".join(lines[node.lineno - 1:node.end_lineno])
    return dict(file=relfile, lines=[node.lineno, node.end_lineno],
                sha256=hashlib.sha256(seg.encode()).hexdigest())


# ------------------------------------------------------------------ class tables
CORE_FILES = [
    "fibertree/core/payload.py", "fibertree/core/coord_payload.py", "fibertree/core/fiber.py",
    "fibertree/core/rank.py", "fibertree/core/rank_attrs.py", "fibertree/core/tensor.py",
    "fibertree/core/metrics.py", "fibertree/core/any.py",
    "fibertree/model/format.py", "fibertree/model/intersect.py", "fibertree/model/compute.py",
    "fibertree/codec/formats/coord_list.py", "fibertree/codec/formats/uncompressed.py",
    "fibertree/codec/formats/bitvector.py", "fibertree/codec/formats/compression_format.py",
    "fibertree/codec/tensor_codec.py",
]

_classes = {}
EXTERN = {}      # classes without source in the repository (dict-like stats, the cache a caller plugs in): name -> {method: "def ..."}


def extern_class(name, methods):
    """Declare a class that has no source in /repo; its methods exist only through trusted contracts (file '<extern>')."""
    EXTERN[name] = dict(methods)
    _classes.clear()


class ClassInfo:
    def __init__(self, name, file, node):
        self.name = name
        self.file = file
        self.node = node
        self.bases = [b.id for b in node.bases if isinstance(b, ast.Name)]
        self.methods = {}   # name -> (file, qualname, node, decorator-names)
        self.attrs = {}     # class-level assignments name -> ast expr


def classes():
    if _classes:
        return _classes
    for f in CORE_FILES:
        if not os.path.exists(os.path.join(REPO, f)):
            continue
        tree, _ = module_ast(f)
        modfuncs = {n.name: n for n in tree.body if isinstance(n, ast.FunctionDef)}
        for n in tree.body:
            if not isinstance(n, ast.ClassDef):
                continue
            ci = ClassInfo(n.name, f, n)
            for s in n.body:
                if isinstance(s, ast.FunctionDef):
                    decos = [d.id for d in s.decorator_list if isinstance(d, ast.Name)]
                    ci.methods[s.name] = (f, n.name + "." + s.name, s, decos)
                elif isinstance(s, ast.ImportFrom) and s.module == "iterators":
                    # methods imported into the class body from iterators.py
                    itf = "fibertree/core/iterators.py"
                    ittree, _ = module_ast(itf)
                    itfuncs = {m.name: m for m in ittree.body if isinstance(m, ast.FunctionDef)}
                    for al in s.names:
                        if al.name in itfuncs:
                            ci.methods[al.asname or al.name] = (itf, al.name, itfuncs[al.name], [])
                elif isinstance(s, ast.Assign) and len(s.targets) == 1 and isinstance(s.targets[0], ast.Name):
                    ci.attrs[s.targets[0].id] = s.value
            _classes[n.name] = ci
    for name, methods in EXTERN.items():
        node = ast.parse("class %s:\n%s" % (name, "".join("    %s\n        pass\n" % sig for sig in methods.values()) or "    pass\n")).body[0]
        ci = ClassInfo(name, "<extern>", node)
        for sdef in node.body:
            if isinstance(sdef, ast.FunctionDef):
                ci.methods[sdef.name] = ("<extern>", name + "." + sdef.name, sdef, [])
        _classes[name] = ci
    return _classes


def find_method(clsname, meth):
    """Resolve through the (single-inheritance) base chain. Returns (file, qual, node, decos) or None."""
    cs = classes()
    seen = set()
    while clsname in cs and clsname not in seen:
        seen.add(clsname)
        ci = cs[clsname]
        if meth in ci.methods:
            return ci.methods[meth]
        if not ci.bases:
            break
        clsname = ci.bases[0]
    return None


def is_subclass(c, d):
    cs = classes()
    seen = set()
    while c not in seen:
        if c == d:
            return True
        seen.add(c)
        if c in cs and cs[c].bases:
            c = cs[c].bases[0]
        else:
            return False
    return False
