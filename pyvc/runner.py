"""Run the VC generator + solvers over a set of contracts, in parallel, and summarise."""
import multiprocessing as mp
import os
import sys
import time

from . import source
from .contracts import REGISTRY


GEN_LIMIT_S = 600          # wall-clock limit for generating the obligations of one function-case (path explosion guard)
MUTANT_LIMIT_S = 240       # per built-in mutant (generation + solving); running out of it counts as "not proved"


class _Timeout(Exception):
    pass


def _alarm(limit):
    import signal

    def handler(signum, frame):
        raise _Timeout()
    signal.signal(signal.SIGALRM, handler)
    signal.setitimer(signal.ITIMER_REAL, limit)


def _alarm_off():
    import signal
    signal.setitimer(signal.ITIMER_REAL, 0)


def _gen(arg):
    """Phase 1 (per function-case): generate obligations from the current source; ship the open ones as SMT-LIB text."""
    if getattr(_gen, "guard", True):
        _alarm(GEN_LIMIT_S)
        try:
            return _gen_inner(arg)
        except _Timeout:
            key, ci, mutant = arg
            c = REGISTRY[key]
            return dict(key=key, case=c.case_names[ci], status="unsupported", detail="generation exceeded %d s (path explosion)" % GEN_LIMIT_S,
                        obligations=[], notes=[], assumptions=[], used=[], paths=0, dead=0, covers=[], src=None, live=[], gen_time=float(GEN_LIMIT_S),
                        wall=float(GEN_LIMIT_S), tier=c.tier, mutant=mutant)
        finally:
            _alarm_off()
    return _gen_inner(arg)


def _gen_inner(arg):
    key, ci, mutant = arg
    import contracts  # noqa: F401  (fills the registry in the worker)
    from .verify import verify_case
    from .solve import to_smt2
    from . import verify as V
    if mutant is not None:
        from . import mutants
        V.mutate_hook = mutants.make_hook(mutant)
    c = REGISTRY[key]
    t0 = time.time()
    r = verify_case(c, ci)
    obs = []
    for ob in r.obligations:
        d = dict(name=ob.name, status=ob.status, backend=ob.backend, time=0.0, kind=ob.kind, prop=ob.prop, line=ob.line,
                 detail=ob.detail, smt2="")
        if ob.status is None:
            try:
                d["smt2"] = to_smt2(ob)
            except Exception as e:
                d["status"], d["backend"], d["detail"] = "unknown", "z3", "cannot serialise: %s" % e
        obs.append(d)
    covers = []
    import z3
    for name, pc in r.covers:
        s = z3.Solver()
        s.set("timeout", 2000)
        for t in pc:
            s.add(t)
        covers.append((name, str(s.check())))
    return dict(key=key, case=r.case, status=r.status, detail=r.detail, obligations=obs, notes=r.notes,
                assumptions=r.assumptions, used=r.used_contracts, paths=r.paths, dead=r.dead, covers=covers,
                src=r.src, live=r.live, gen_time=round(r.gen_time, 3), wall=round(time.time() - t0, 3), tier=c.tier, mutant=mutant)


_FAILS = None          # shared per-function-case failure counters (set in the solve workers)
FAIL_CAP = 3           # once this many obligations of one function-case are not proved, its remaining ones are not attempted


def _init_fails(arr):
    global _FAILS
    _FAILS = arr


def _solve(arg):
    txt, z3_ms, use_cvc5 = arg[:3]
    ri = arg[3] if len(arg) > 3 else None
    from .solve import discharge_smt2
    if ri is not None and _FAILS is not None and _FAILS[ri] >= FAIL_CAP:
        return dict(status="unknown", backend="not-attempted", time=0.0,
                    detail="not attempted: %d obligations of this function already failed" % FAIL_CAP)
    try:
        out = discharge_smt2(txt, z3_ms=z3_ms, use_cvc5=use_cvc5)
    except Exception as e:
        out = dict(status="unknown", backend="z3", time=0.0, detail="solver worker failed: %s" % e)
    if ri is not None and _FAILS is not None and out["status"] != "proved":
        with _FAILS.get_lock():
            _FAILS[ri] += 1
    return out


def run_jobs(jobs, z3_ms, use_cvc5, procs, stop_at_first_failure=False):
    procs = procs or 16
    ctx = mp.get_context("fork")
    with ctx.Pool(min(procs, max(1, len(jobs)))) as pool:
        results = pool.map(_gen, jobs, chunksize=1)
    todo = [(ri, oi) for ri, r in enumerate(results) for oi, o in enumerate(r["obligations"]) if o["status"] is None]
    if todo:
        fails = ctx.Array("i", len(results))
        with ctx.Pool(min(procs, len(todo)), initializer=_init_fails, initargs=(fails,)) as pool:
            outs = pool.map(_solve, [(results[ri]["obligations"][oi]["smt2"], z3_ms, use_cvc5, ri) for ri, oi in todo], chunksize=2)
        for (ri, oi), out in zip(todo, outs):
            o = results[ri]["obligations"][oi]
            o.update(status=out["status"], backend=out["backend"], time=round(out["time"], 4), detail=out["detail"][:3000])
        # second chance for the undecided ones: few processes (an idle machine), three times the budget, so that a verdict
        # reached on an idle machine is also reached when all cores were busy during the first pass
        again = [(ri, oi) for ri, oi in todo if results[ri]["obligations"][oi]["status"] == "unknown"
                 and results[ri]["obligations"][oi]["backend"] != "not-attempted" and fails[ri] < FAIL_CAP]
        if again:
            with ctx.Pool(min(4, len(again))) as pool:
                outs = pool.map(_solve, [(results[ri]["obligations"][oi]["smt2"], z3_ms * 3, use_cvc5) for ri, oi in again], chunksize=1)
            for (ri, oi), out in zip(again, outs):
                o = results[ri]["obligations"][oi]
                o.update(status=out["status"], backend=out["backend"] + " (retry)", time=round(o["time"] + out["time"], 4), detail=out["detail"][:3000])
    dump = os.environ.get("PYVC_DUMP_DIR")
    if dump:
        os.makedirs(dump, exist_ok=True)
        n = 0
        for r in results:
            for o in r["obligations"]:
                if o["status"] != "proved" and o.get("smt2"):
                    with open(os.path.join(dump, "ob%03d.smt2" % n), "w") as f:
                        f.write("; %s\n" % o["name"])
                        f.write(o["smt2"])
                    n += 1
    for r in results:
        for o in r["obligations"]:
            if o["status"] == "proved":
                o["smt2"] = ""
            else:
                o["smt2"] = "\n".join(o["smt2"].splitlines()[-12:])
    return results


def run(keys, z3_ms=10000, use_cvc5=True, procs=None, mutant=None):
    jobs = []
    for key in keys:
        c = REGISTRY[key]
        if c.trusted or c.inline or not c.verify:
            continue
        for ci in range(len(c.cases)):
            jobs.append((key, ci, mutant))
    return run_jobs(jobs, z3_ms, use_cvc5, procs)


def _solve_retry(txt, z3_ms):
    out = _solve((txt, z3_ms, True))
    if out["status"] == "unknown":
        out = _solve((txt, z3_ms * 3, True))
    return out


def _mutant_job(arg):
    """One mutant of one function-case: generate, then solve obligation by obligation and stop at the first one that is
    not proved (that is all a mutant has to show).  For the baseline (m is None) returns (dead, live statement ranges)."""
    key, ci, m, z3_ms = arg
    if m is not None:
        _gen.guard = False
        _alarm(MUTANT_LIMIT_S)
        try:
            return _mutant_job_inner(arg)
        except _Timeout:
            return True                # could not be verified within the limit: not proved
        finally:
            _alarm_off()
            _gen.guard = True
    return _mutant_job_inner(arg)


def _mutant_job_inner(arg):
    key, ci, m, z3_ms = arg
    r = _gen((key, ci, m))
    if m is None:
        dead = r["status"] != "ok"
        if not dead:
            for o in r["obligations"]:
                if o["status"] is None:
                    if _solve_retry(o["smt2"], z3_ms)["status"] != "proved":
                        dead = True
                        break
                elif o["status"] != "proved":
                    dead = True
                    break
        return dead, r.get("live", [])
    if r["status"] != "ok":
        return True
    for o in r["obligations"]:
        if o["status"] is None:
            out = _solve_retry(o["smt2"], z3_ms)
            if out["status"] != "proved":
                return True
        elif o["status"] != "proved":
            return True
    return False


def mutant_sweep(keys, z3_ms=5000, procs=None, max_per_fn=None):
    """Every built-in mutant of every verified function must fail at least one obligation (or be unsupported).
    Sites in statements that no feasible path of the unmutated function executes under the contract's preconditions
    (e.g. tracing code under `not Metrics.collecting`) are out of the contract's scope and are counted separately."""
    from . import mutants
    ctx = mp.get_context("fork")
    todo = []
    for key in keys:
        c = REGISTRY[key]
        if c.trusted or c.inline or not c.verify:
            continue
        try:
            source.locate(c.file, c.qual)
        except Exception:
            continue
        todo.append(key)
    base = [(key, ci) for key in todo for ci in range(len(REGISTRY[key].cases))]
    jobs, desc = [], {}
    with ctx.Pool(min(procs or 16, max(1, len(base)))) as pool:
        bres = pool.map(_mutant_job, [(k, ci, None, z3_ms) for k, ci in base], chunksize=1)
    invalid = set(kc for kc, (dead, _l) in zip(base, bres) if dead)
    live = {kc: lv for kc, (_d, lv) in zip(base, bres)}
    out_of_scope = 0
    for key in todo:
        c = REGISTRY[key]
        node = source.locate(c.file, c.qual)
        ss = mutants.sites(node)
        n = len(ss)
        if max_per_fn:
            n = min(n, max_per_fn)
        src_lines = source.module_ast(c.file)[1].splitlines()
        for m in range(n):
            d = mutants.describe(node, m)
            line = int(d.split("@line")[1])
            if c.mutant_skip and 0 < line <= len(src_lines) and any(t in src_lines[line - 1] for t in c.mutant_skip):
                out_of_scope += 1
                continue
            used = False
            for ci in range(len(c.cases)):
                if (key, ci) in invalid:
                    continue
                if any(a <= line <= b for a, b in live.get((key, ci), [])):
                    jobs.append((key, ci, m))
                    used = True
            if used:
                desc[(key, m)] = d
            elif not all((key, ci) in invalid for ci in range(len(c.cases))):
                out_of_scope += 1
    if jobs:
        with ctx.Pool(min(procs or 16, max(1, len(jobs)))) as pool:
            res = pool.map(_mutant_job, [j + (z3_ms,) for j in jobs], chunksize=1)
    else:
        res = []
    mutant_sweep.invalid = sorted("%s#%d" % (k[1], ci) for k, ci in invalid)
    mutant_sweep.out_of_scope = out_of_scope
    killed = {}
    for j, dead in zip(jobs, res):
        k = (j[0], j[2])
        killed[k] = killed.get(k, False) or dead
    survivors = sorted((k[0][1], desc[k]) for k, v in killed.items() if not v)
    return len(killed), survivors


def summarize(results, verbose=False, out=sys.stdout):
    tot = proved = 0
    bad = []
    for r in results:
        name = "%s::%s#%s" % (r["key"][0], r["key"][1], r["case"])
        if r["status"] != "ok":
            print("  [%s] %s: %s" % (r["status"].upper(), name, r["detail"].splitlines()[0] if r["detail"] else ""), file=out)
            bad.append(r)
            continue
        n = len(r["obligations"])
        p = sum(1 for o in r["obligations"] if o["status"] == "proved")
        tot += n
        proved += p
        vac = [c for c in r["covers"] if c[1] == "unsat"]
        flag = "" if p == n else "  <-- %d not proved" % (n - p)
        if n == 0:
            flag += "  <-- ZERO obligations"
        if vac:
            flag += "  <-- vacuous: %s" % vac
        if verbose or flag:
            print("  %s: %d/%d obligations, %d paths, gen %.2fs wall %.2fs%s" % (name, p, n, r["paths"], r["gen_time"], r["wall"], flag), file=out)
        for o in r["obligations"]:
            if o["status"] != "proved":
                print("      %s  %s (%s, %.2fs)" % (o["status"].upper(), o["name"], o["backend"], o["time"]), file=out)
                if verbose and o["detail"]:
                    print("         " + o["detail"][:600], file=out)
    print("  total: %d/%d obligations proved, %d functions not processed" % (proved, tot, len(bad)), file=out)
    return tot, proved, bad


if __name__ == "__main__":
    import argparse
    sys.path.insert(0, os.path.dirname(os.path.dirname(os.path.abspath(__file__))))
    import contracts  # noqa: F401
    ap = argparse.ArgumentParser()
    ap.add_argument("--match", default="")
    ap.add_argument("-v", action="store_true")
    ap.add_argument("--procs", type=int, default=None)
    ap.add_argument("--ms", type=int, default=10000)
    ap.add_argument("--no-cvc5", action="store_true")
    ap.add_argument("--mutants", action="store_true")
    a = ap.parse_args()
    keys = [k for k in REGISTRY if a.match in k[0] + "::" + k[1]]
    t0 = time.time()
    if a.mutants:
        n, surv = mutant_sweep(keys, z3_ms=a.ms)
        if mutant_sweep.invalid:
            print("baseline does not pass under the sweep budget (mutants not counted):", mutant_sweep.invalid)
        print("mutants: %d, survivors: %d, sites in statements unreachable under the contract (not counted): %d" % (n, len(surv), mutant_sweep.out_of_scope))
        for q, d in surv:
            print("   SURVIVOR", q, d)
        print("wall %.1fs" % (time.time() - t0))
        sys.exit(0)
    res = run(keys, z3_ms=a.ms, use_cvc5=not a.no_cvc5, procs=a.procs)
    summarize(res, verbose=a.v)
    print("wall %.1fs" % (time.time() - t0))
