"""Contract objects and the registry.  Contract *texts* live in /verif/contracts/*.py."""
from .values import parse_ty

REGISTRY = {}      # (file, qual) -> Contract
FIELDS = {}        # "Class.field" -> Ty
PURE_SPECS = {}    # name -> python function(exec, st, *V) -> V   (spec helper functions)


def field(cls_field, ty):
    FIELDS[cls_field] = parse_ty(ty)


class Contract:
    def __init__(self, file, qual, **kw):
        self.file = file
        self.qual = qual
        self.cases = kw.pop("cases", None) or [kw.pop("types", {})]
        # a case entry "=text" binds the parameter to that concrete string (one verified instantiation per constant)
        self.consts = [{k: v[1:] for k, v in c.items() if isinstance(v, str) and v.startswith("=")} for c in self.cases]
        self.cases = [{k: parse_ty("str" if isinstance(v, str) and v.startswith("=") else v) for k, v in c.items()} for c in self.cases]
        self.case_names = kw.pop("case_names", None) or ["case%d" % i for i in range(len(self.cases))]
        r = kw.pop("returns", "none")
        self.returns = [parse_ty(x) for x in r] if isinstance(r, (list, tuple)) else [parse_ty(r)] * len(self.cases)
        self.requires = _tagged(kw.pop("requires", []))
        self.ensures = _tagged(kw.pop("ensures", []))
        # allowed exceptional exits: name -> dict(when=<necessary condition over old state>, ensures=[...])
        self.raises = {k: dict(when=v.get("when"), ensures=_tagged(v.get("ensures", [])))
                       for k, v in kw.pop("raises", {}).items()}
        self.modifies = list(kw.pop("modifies", []))
        self.loops = kw.pop("loops", {})
        self.yields = kw.pop("yields", None)      # dict(elem=ty, consumer_may_modify=[...]) for generators
        self.inline = kw.pop("inline", False)
        self.trusted = kw.pop("trusted", False)   # external / assumed: never verified, only used at call sites
        self.tier = kw.pop("tier", "T" if self.trusted else "P")
        self.locals = {k: parse_ty(v) for k, v in kw.pop("locals", {}).items()}
        self.ghost = kw.pop("ghost", {})          # name -> spec expr evaluated at entry
        self.kwonly_defaults = kw.pop("kw", {})
        self.varargs_arity = kw.pop("varargs", None)  # number of *args in each case
        self.note = kw.pop("note", "")
        self.unroll = kw.pop("unroll", {})        # loop ordinal -> max unroll count (concrete-length loops)
        self.fresh_result = kw.pop("fresh_result", False)
        self.verify = kw.pop("verify", True)      # False: contract only used at call sites (body B/T tier)
        self.per_case = kw.pop("per_case", {})
        # definitional axioms of spec functions introduced by this contract: assumed when the function itself is verified,
        # not required of callers (conservative extension: the defined symbol is constrained nowhere else)
        self.defines = list(kw.pop("defines", []))
        # intermediate assertions ("lemmas"): {"<text contained in the unparsed statement>": [spec, ...]}; after the first
        # statement whose source contains the text, each spec is proved on that path and then assumed
        self.lemmas = dict(kw.pop("lemmas", {}))
        # {"callee qual": [substrings]}: postcondition clauses of that callee containing one of the substrings are not
        # imported at this function's call sites
        self.callee_views = dict(kw.pop("callee_views", {}))
        # built-in mutants on source lines containing one of these texts are not generated (statements that only feed
        # external cost-accounting objects the property does not speak about); counted separately in the sweep
        self.mutant_skip = list(kw.pop("mutant_skip", []))
        # {"local": "Class"}: whenever that local of the function is assigned a reference of several possible classes,
        # the class is asserted (an obligation, proved from the path facts) and the reference narrowed to it
        self.narrow = dict(kw.pop("narrow", {}))    # case name -> dict(requires=[], ensures=[]) additions
        assert not kw, "unknown contract keys %r" % list(kw)

    @property
    def key(self):
        return (self.file, self.qual)

    def props(self):
        ps = set()
        for tag, _ in self.ensures:
            ps.update(tag.split())
        for v in self.raises.values():
            for tag, _ in v["ensures"]:
                ps.update(tag.split())
        return {p for p in ps if p.startswith("C")}


def _tagged(x):
    """Normalise  [str] | {tag: [str]}  ->  [(tag, str)]"""
    out = []
    if isinstance(x, dict):
        for tag, lst in x.items():
            for s in lst:
                out.append((tag, s))
    else:
        for s in x:
            out.append(("", s))
    return out


def contract(file, qual, **kw):
    c = Contract(file, qual, **kw)
    assert c.key not in REGISTRY, "duplicate contract %r" % (c.key,)
    REGISTRY[c.key] = c
    return c


def spec_fn(name):
    def deco(f):
        PURE_SPECS[name] = f
        return f
    return deco
