"""Verification of one function against its contract: produces named obligations."""
import ast
import time
import traceback
import z3

from .values import *            # noqa
from .state import *             # noqa
from . import ops, source
from .exec import ExecBase, Ctx, Exc
from .stmts import StmtMixin, loops_preorder, yields_preorder
from .calls import CallMixin
from .spec import SpecMixin
from .contracts import REGISTRY, FIELDS


class Exec(CallMixin, SpecMixin, StmtMixin):
    def may_inline(self, fv):
        c = REGISTRY.get((fv.file, fv.qual))
        return c is not None and c.inline

    def after_yield(self, st, ctx, ordinal, v, node, k):
        c = getattr(ctx, "contract", None)
        y = c.yields if c is not None else None
        if y and y.get("consumer_may_modify"):
            env = {"yielded": v}
            self.havoc_locs_env(st, ctx, y["consumer_may_modify"], env)
        k(st)

    def havoc_locs_env(self, st, ctx, specs, env):
        locs = self.eval_locs(specs, st, ctx, env)
        self.havoc_loc_list(st, locs)


class FunctionResult:
    def __init__(self, contract, case):
        self.contract = contract
        self.case = case
        self.obligations = []
        self.status = "ok"        # ok | unsupported | stale | crash
        self.detail = ""
        self.notes = []
        self.assumptions = []
        self.used_contracts = []
        self.paths = 0
        self.dead = 0
        self.covers = []
        self.src = None
        self.gen_time = 0.0
        self.live = []            # (first line, last line) of the statements (or compound-statement headers) executed on some feasible path


def mutate_hook(node):
    """Overridden by the mutant runner: returns a (possibly modified) copy of the function AST."""
    return node


def verify_case(c, ci, fn_node=None):
    """Generate the obligations of contract c, case ci, from the current source."""
    res = FunctionResult(c, c.case_names[ci])
    t0 = time.time()
    from .exec import clear_memo
    clear_memo()
    try:
        node = fn_node if fn_node is not None else source.locate(c.file, c.qual)
        node = mutate_hook(node)
        res.src = source.source_info(c.file, node) if fn_node is None else None
        ex = Exec(c.file, c.qual + "#" + c.case_names[ci] if len(c.cases) > 1 else c.qual, c)
        _run(ex, c, ci, node, res)
        res.obligations = ex.obligations
        res.notes = sorted(set(ex.notes))
        res.assumptions = sorted(ex.assumptions)
        res.used_contracts = sorted(ex.used_contracts)
        res.paths, res.dead, res.covers = ex.paths, ex.dead, ex.covers
        res.live = sorted(ex.live_stmts)
    except StaleContract as e:
        res.status, res.detail = "stale", str(e)
    except Unsupported as e:
        res.status, res.detail = "unsupported", str(e)
    except RecursionError as e:
        res.status, res.detail = "crash", "recursion limit"
    except Exception as e:
        res.status, res.detail = "crash", "%s: %s\n%s" % (type(e).__name__, e, traceback.format_exc()[-1500:])
    res.gen_time = time.time() - t0
    return res


def _run(ex, c, ci, node, res):
    case = c.cases[ci]
    st = State()
    a0 = z3.Int("alloc0")
    st.cells["alloc"] = a0
    st.assume(a0 >= 1)
    args = node.args
    params = [a.arg for a in args.posonlyargs + args.args] + [a.arg for a in args.kwonlyargs]
    ctx0 = Ctx(ret=None, brk=None, cont=None, exc=None, file=c.file, qual=c.qual, contract=c,
               loop_nodes=loops_preorder(node), yield_nodes=yields_preorder(node),
               allowed_raises=tuple(c.raises.keys()), catching=())
    # parameters
    defaults = dict(zip([a.arg for a in (args.posonlyargs + args.args)][len(args.posonlyargs + args.args) - len(args.defaults):], args.defaults))
    for a, d in zip(args.kwonlyargs, args.kw_defaults):
        if d is not None:
            defaults[a.arg] = d
    pending_defaults = []
    for p in params:
        if p in case:
            ty = case[p]
            if ty.k == "func":
                raise Unsupported("function-typed parameter %s needs a uf declaration" % p)
            if p in c.consts[ci]:
                st.store[p] = VStr(c.consts[ci][p])
            else:
                st.store[p] = fresh_value(st, ty, p)
        elif p in c.kwonly_defaults:
            st.store[p] = _uf_param(p, c.kwonly_defaults[p])
        elif p in defaults:
            pending_defaults.append(p)
        else:
            raise StaleContract("%s: parameter %r has no declared type" % (c.qual, p))
    if args.vararg is not None:
        key = "*" + args.vararg.arg
        if key in case:
            st.store[args.vararg.arg] = fresh_value(st, case[key], args.vararg.arg)
        else:
            st.store[args.vararg.arg] = VTuple([])
    if args.kwarg is not None:
        st.store[args.kwarg.arg] = VDict({})
    for p in pending_defaults:
        got = []
        ex.ev(defaults[p], st, ctx0.with_(exc=lambda s, e: None), lambda s, v: got.append(v))
        if len(got) != 1:
            raise Unsupported("default of %s" % p)
        st.store[p] = got[0]
    # closure variables of nested functions/classes: declared in contract.locals
    for n, ty in c.locals.items():
        if n not in st.store:
            st.store[n] = fresh_value(st, ty, n)
    entry_env = dict(st.store)
    # ghost definitions
    for g, expr in c.ghost.items():
        st.store[g] = ex.spec_val(expr, st, ctx0, entry_env)
        entry_env[g] = st.store[g]
    if c.yields is not None:
        st.out = empty_seq(parse_ty(c.yields["elem"]))
    # requires
    extra = c.per_case.get(c.case_names[ci], {})
    for _t, r in c.requires + [("", x) for x in extra.get("requires", [])]:
        st.assume(ex.spec_bool(r, st, ctx0, entry_env))
    for d in c.defines:
        st.assume(ex.spec_bool(d, st, ctx0, entry_env))
    old = st.fork()
    st.labels = {"old": old}
    ex.covers.append(("entry::requires-satisfiable", list(st.pc)))
    locs = ex.eval_locs(c.modifies, old, ctx0, entry_env)
    rty = c.returns[ci]

    def check_post(st1, result, where, line):
        env = dict(entry_env)
        env["result"] = result
        if st1.out is not None:
            env["out"] = st1.out
        for j, (tag, p) in enumerate(c.ensures + [("", x) for x in extra.get("ensures", [])]):
            t = ex.spec_bool(p, st1, ctx0, env, old=old)
            ex.oblige(st1, "%s::ensures[%s]#%d" % (where, tag, j), t, line, kind="postcondition", prop=tag)
        ex.frame_obligations(st1, old, locs, where, line)
        ex.paths += 1

    def on_ret(st1, v):
        if c.yields is not None or rty.k == "none":
            return check_post(st1, VNone(), "exit", None)
        if not fits(v, rty) and isinstance(v, VOpt):
            # an option of another shape: decide None-ness on this path and retry with the narrowed value
            return ex.branch(st1, v.isnone, lambda s_: on_ret(s_, VNone()), lambda s_: on_ret(s_, v.val))
        if not fits(v, rty):
            ob = Obligation("%s::%s::exit::return-type" % (ex.file, ex.qual), st1.pc, z3.BoolVal(False), kind="type")
            ob.detail = "returned %r where %r is declared" % (v, rty)
            ex.obligations.append(ob)
            return
        check_post(st1, coerce(v, rty), "exit", None)

    def on_exc(st1, e):
        spec = c.raises.get(e.name)
        where = "raise[%s]@%s" % (e.name, e.line)
        if spec is None:
            ex.obligations.append(Obligation("%s::%s::%s::unexpected-exception" % (ex.file, ex.qual, where), st1.pc,
                                             z3.BoolVal(False), line=e.line, kind="safety"))
            return
        env = dict(entry_env)
        if spec["when"] is not None:
            ex.oblige(st1, "%s::when" % where, ex.spec_bool(spec["when"], old, ctx0, env, old=old), e.line, kind="postcondition")
        for j, (tag, p) in enumerate(spec["ensures"]):
            ex.oblige(st1, "%s::ensures[%s]#%d" % (where, tag, j), ex.spec_bool(p, st1, ctx0, env, old=old), e.line,
                      kind="postcondition", prop=tag)
        ex.paths += 1

    ctx = ctx0.with_(ret=on_ret, exc=on_exc)
    ex.top_qual = c.qual
    ex.ex_block(node.body, st, ctx, lambda st1: on_ret(st1, VNone()))
    ex.drain_loops()
    for key in c.lemmas:
        if key not in ex.lemmas_seen:
            raise StaleContract("%s: lemma anchor %r matches no statement" % (c.qual, key))


def _uf_param(name, decl):
    """decl = dict(args=[ty...], ret=ty): an uninterpreted pure function parameter."""
    argtys = [parse_ty(a) for a in decl["args"]]
    retty = parse_ty(decl["ret"])
    dom = []
    for a in argtys:
        dom += comp_sorts(a)
    fns = [z3.Function("uf_%s_%d" % (name, i), *(dom + [s])) for i, s in enumerate(comp_sorts(retty))]
    return VFunc("uf", name=name, argtys=argtys, retty=retty, fns=fns)
