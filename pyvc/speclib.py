"""Shared pure spec functions (logical rendering).  Executable renderings live in /verif/spec."""
import z3

from .values import *            # noqa
from .state import *             # noqa
from . import ops
from .contracts import spec_fn


def _seq_of(ex, se, x):
    if isinstance(x, VOpt):
        x = x.val
    if isinstance(x, VList):
        tmp = State()
        tmp.heap = se.st.heap
        return list_as_seq(tmp, x)
    if isinstance(x, VSeq):
        return x
    raise Unsupported("not a sequence: %r" % (x,))


@spec_fn("sorted_strict")
def sorted_strict(ex, se, xs, lo=None, hi=None):
    """xs[lo:hi] strictly increasing (int component 0)."""
    s = _seq_of(ex, se, xs)
    a = s.comps[0]
    l = z3.IntVal(0) if lo is None else ops.to_int(lo)
    h = s.n if hi is None else ops.to_int(hi)
    i, j = z3.Int("si!b"), z3.Int("sj!b")
    return VBool(z3.ForAll([i, j], z3.Implies(z3.And(l <= i, i < j, j < h), a[i] < a[j])))


@spec_fn("sorted_weak")
def sorted_weak(ex, se, xs):
    s = _seq_of(ex, se, xs)
    a = s.comps[0]
    i, j = z3.Int("si!b"), z3.Int("sj!b")
    return VBool(z3.ForAll([i, j], z3.Implies(z3.And(0 <= i, i < j, j < s.n), a[i] <= a[j])))


@spec_fn("same_elems")
def same_elems(ex, se, xs, ys, lo, hi, shift=None):
    """forall k in [lo,hi): xs[k] == ys[k+shift]  (all components)."""
    a, b = _seq_of(ex, se, xs), _seq_of(ex, se, ys)
    sh = z3.IntVal(0) if shift is None else ops.to_int(shift)
    k = z3.Int("sk!b")
    body = z3.And([x[k] == y[k + sh] for x, y in zip(a.comps, b.comps)])
    return VBool(z3.ForAll([k], z3.Implies(z3.And(ops.to_int(lo) <= k, k < ops.to_int(hi)), body)))


@spec_fn("seq_eq")
def seq_eq(ex, se, xs, ys):
    a, b = _seq_of(ex, se, xs), _seq_of(ex, se, ys)
    return VBool(ops.val_eq(a, b))


@spec_fn("unchanged_list")
def unchanged_list(ex, se, xs):
    """The list (same identity) has the same length and elements as in the pre-state."""
    if isinstance(xs, VOpt):
        xs = xs.val
    tmp = State()
    tmp.heap = se.st.heap
    old = State()
    old.heap = se.old.heap
    a, b = list_as_seq(tmp, xs), list_as_seq(old, xs)
    return VBool(ops.val_eq(a, b))


def _fld(ex, se, obj, name):
    if isinstance(obj, VOpt):
        obj = obj.val
    return ex.sp_load(se, obj.t, "Fiber", name)


@spec_fn("wf")
def wf(ex, se, f):
    """C01 representation invariant of one (eager, ordered, unique) fiber: parallel lists, strictly increasing coords."""
    coords, payloads = _fld(ex, se, f, "coords"), _fld(ex, se, f, "payloads")
    tmp = State()
    tmp.heap = se.st.heap
    n = list_len(tmp, coords)
    a = list_arrays(tmp, coords)[0]
    i, j = z3.Int("wi!b"), z3.Int("wj!b")
    return VBool(z3.And(n == list_len(tmp, payloads), coords.t != payloads.t,
                        _fld(ex, se, f, "_ordered").t, _fld(ex, se, f, "_unique").t,
                        z3.Not(_fld(ex, se, f, "_is_lazy").t),
                        z3.ForAll([i, j], z3.Implies(z3.And(0 <= i, i < j, j < n), a[i] < a[j]))))


@spec_fn("pempty")
def pempty(ex, se, p, default):
    """Payload.isEmpty as a spec function: a box is empty iff its value equals the default; a fiber iff g_empty."""
    if isinstance(p, VOpt):
        p = p.val
    d = default
    if isinstance(d, VObj):
        d = ex.sp_load(se, d.t, "Payload", "value")
    dv = ops.as_u(d)
    box = ex.sp_load(se, p.t, "Payload", "value").t == dv
    if p.classes == ("Payload",):
        return VBool(box)
    fe = ex.sp_load(se, p.t, "Fiber", "g_empty").t
    if p.classes == ("Fiber",):
        return VBool(fe)
    return VBool(z3.If(cls_of(p.t) == class_tag("Fiber"), fe, box))


@spec_fn("member")
def member(ex, se, x, xs, lo=None, hi=None):
    """exists k in [lo,hi): xs[k] == x   (component 0)"""
    s = _seq_of(ex, se, xs)
    l = z3.IntVal(0) if lo is None else ops.to_int(lo)
    h = s.n if hi is None else ops.to_int(hi)
    k = z3.Int("mk!b")
    xv = x.val if isinstance(x, VOpt) else x
    return VBool(z3.Exists([k], z3.And(l <= k, k < h, s.comps[0][k] == xv.t)))


@spec_fn("index_of")
def index_of(ex, se, xs, x):
    """First index of x in the list (as list.index): an index term r with xs[r] == x and no earlier occurrence, when x occurs."""
    s = _seq_of(ex, se, xs)
    r = z3.Int(fresh_name("idx"))
    j = z3.Int("j!b")
    occurs = z3.Exists([j], z3.And(0 <= j, j < s.n, s.comps[0][j] == x.t))
    se.facts.append(z3.Implies(occurs, z3.And(0 <= r, r < s.n, s.comps[0][r] == x.t,
                                              z3.ForAll([j], z3.Implies(z3.And(0 <= j, j < r), s.comps[0][j] != x.t)))))
    return VInt(r)


@spec_fn("ceil_div")
def ceil_div(ex, se, a, b):
    """ceil(a / b) for a positive divisor, in exact integer arithmetic."""
    return VInt(-((-ops.to_int(a)) / ops.to_int(b)))


@spec_fn("psum")
def psum(ex, se, xs):
    """S with S(0) = 0 and S(j+1) = S(j) + xs[j]: the prefix sums of an int list in the state where the clause is evaluated."""
    S = z3.Function(fresh_name("S"), I, I)
    tmp = State()
    tmp.heap = se.st.heap
    if isinstance(xs, VOpt):
        xs = xs.val
    arr = list_arrays(tmp, xs)[0] if isinstance(xs, VList) else _seq_of(ex, se, xs).comps[0]
    j = z3.Int("j!b")
    se.facts.append(S(0) == 0)
    se.facts.append(z3.ForAll([j], z3.Implies(j >= 0, S(j + 1) == S(j) + arr[j]), patterns=[S(j + 1)]))
    return VFunc("uf", name="S", argtys=[parse_ty("int")], retty=parse_ty("int"), fns=[S])


@spec_fn("count_nonempty")
def count_nonempty(ex, se, f):
    """C with C(0) = 0 and C(j+1) = C(j) + (0 if the box payloads[j] holds the fiber's default else 1)."""
    if isinstance(f, VOpt):
        f = f.val
    payloads = _fld(ex, se, f, "payloads")
    tmp = State()
    tmp.heap = se.st.heap
    arr = list_arrays(tmp, payloads)[0]
    d = ex.sp_load(se, f.t, "Fiber", "g_default")
    j = z3.Int("j!b")
    val = ex.sp_load(se, arr[j], "Payload", "value")
    # the defined function is named after what defines it (the list, the box values, the default), so that a caller and a
    # callee that count the same fiber in the same state speak about the same function
    import hashlib
    C = z3.Function("C!" + hashlib.sha1((arr.sexpr() + "|" + val.t.sexpr() + "|" + ops.as_u(d).sexpr()).encode()).hexdigest()[:12], I, I)
    se.facts.append(C(0) == 0)
    se.facts.append(z3.ForAll([j], z3.Implies(j >= 0, C(j + 1) == C(j) + z3.If(val.t == ops.as_u(d), 0, 1)), patterns=[C(j + 1)]))
    return VFunc("uf", name="C", argtys=[parse_ty("int")], retty=parse_ty("int"), fns=[C])


@spec_fn("old_value")
def old_value(ex, se, p):
    """The value a box held in the pre-state (the box may have been reached through post-state structure)."""
    if isinstance(p, VOpt):
        p = p.val
    se_old = type(se)(se.old, dict(se.env), ex, se.ctx, se.old)
    return ex.sp_load(se_old, p.t, "Payload", "value")
