"""Symbolic executor (continuation-passing): expressions."""
import ast
import sys
import z3

from .values import *            # noqa
from .values import _fresh_ctr
from .state import *             # noqa
from . import ops, source
from .ops import PyRaise
from .contracts import REGISTRY, FIELDS, PURE_SPECS

sys.setrecursionlimit(50000)


_hq_memo = {}


def has_quant(t):
    """Does the term contain a quantifier or lambda (memoised on the AST id)?"""
    i = t.get_id()
    r = _hq_memo.get(i)
    if r is not None:
        return r[1]
    if z3.is_quantifier(t):
        r = True
    else:
        r = any(has_quant(c) for c in t.children())
    # the term itself is kept in the memo: z3 recycles the ids of freed terms, a bare id could later name another term
    _hq_memo[i] = (t, r)
    return r


def clear_memo():
    """Called at the start of every function-case / obligation: bounds the memory the memo pins."""
    _hq_memo.clear()


class Ctx:
    """Per-frame continuations and static information."""

    def __init__(self, **kw):
        self.__dict__.update(kw)

    def with_(self, **kw):
        c = Ctx(**self.__dict__)
        c.__dict__.update(kw)
        return c


class Exc:
    """A raised Python exception (class name only; message ignored)."""

    def __init__(self, name, line=None):
        self.name = name
        self.line = line


EXC_PARENTS = {"CoordinateError": "Exception", "PayloadError": "Exception", "AssertionError": "Exception",
               "StopIteration": "Exception", "TypeError": "Exception", "ValueError": "Exception",
               "IndexError": "LookupError", "KeyError": "LookupError", "LookupError": "Exception",
               "ZeroDivisionError": "ArithmeticError", "ArithmeticError": "Exception",
               "AttributeError": "Exception", "NotImplementedError": "Exception", "Exception": "BaseException",
               "UnboundLocalError": "NameError", "NameError": "Exception"}


def exc_matches(name, handler):
    while name is not None:
        if name == handler:
            return True
        name = EXC_PARENTS.get(name)
    return False


class ExecBase:
    def __init__(self, file, qual, contract=None, budget_ms=300):
        self.file = file
        self.qual = qual
        self.contract = contract
        self.obligations = []
        self.notes = []          # dropped statements, assumptions used
        self.paths = 0
        self.dead = 0
        self.covers = []
        self.solver_calls = 0
        self.budget_ms = budget_ms
        self.inline_depth = 0
        self.assumptions = set()
        self.local_classes = {}
        self.used_contracts = set()
        self.pending_loops = {}
        self.top_qual = None
        self.lemmas_seen = set()
        self.live_stmts = set()

    # ------------------------------------------------------------ solver helpers
    def check_sat(self, terms, ms=None):
        s = z3.Solver()
        s.set("timeout", ms or self.budget_ms)
        for t in terms:
            s.add(t)
        self.solver_calls += 1
        return s.check()

    def feasible(self, st):
        # pruning only: quantified facts are dropped (fewer constraints never prune a feasible path)
        r = self.check_sat([t for t in st.pc if not has_quant(t)])
        if r == z3.unsat:
            self.dead += 1
            return False
        return True

    def decide(self, st, cond):
        """Return True/False if cond is syntactically or cheaply decided under pc, else None."""
        c = z3.simplify(cond)
        if z3.is_true(c):
            return True
        if z3.is_false(c):
            return False
        return None

    def branch(self, st, cond, k_true, k_false):
        d = self.decide(st, cond)
        if d is True:
            return k_true(st)
        if d is False:
            return k_false(st)
        s1 = st.fork()
        s1.assume(cond)
        if self.feasible(s1):
            k_true(s1)
        s2 = st.fork()
        s2.assume(z3.Not(cond))
        if self.feasible(s2):
            k_false(s2)

    def oblige(self, st, what, goal, line=None, kind="safety", prop=""):
        g = z3.simplify(goal) if not z3.is_quantifier(goal) else goal
        name = "%s::%s::%s" % (self.file, self.qual, what)
        ob = Obligation(name, [] if z3.is_true(g) else st.pc, goal, line=line, kind=kind, prop=prop)
        if z3.is_true(g):
            ob.status, ob.backend = "proved", "z3-simplify"   # syntactically valid after simplification
        else:
            # every conjunct of the goal literally is a hypothesis of this path
            have = set(h.get_id() for h in st.pc)

            def present(t):
                if t.get_id() in have or z3.is_true(t):
                    return True
                return z3.is_and(t) and all(present(c) for c in t.children())
            if present(goal):
                ob.status, ob.backend = "proved", "z3-simplify"
        self.obligations.append(ob)
        st.assume(goal)

    def raise_(self, st, ctx, name, line=None):
        ctx.exc(st, Exc(name, line))

    # ------------------------------------------------------------ truthiness
    def truth(self, st, v):
        """z3 Bool for Python truthiness of a primitive/heap value (no user __bool__ dispatch)."""
        if isinstance(v, VBool):
            return v.t
        if isinstance(v, VInt):
            return v.t != 0
        if isinstance(v, VNone):
            return z3.BoolVal(False)
        if isinstance(v, VStr):
            if v.s is not None:
                return z3.BoolVal(len(v.s) > 0)
            raise Unsupported("truthiness of symbolic string")
        if isinstance(v, VTuple):
            return z3.BoolVal(len(v.items) > 0)
        if isinstance(v, VList):
            return list_len(st, v) > 0
        if isinstance(v, VOpt):
            return z3.And(z3.Not(v.isnone), self.truth(st, v.val))
        if isinstance(v, VU):
            return ops.uop("truth", B, 1)(v.t)
        if isinstance(v, VFunc):
            return z3.BoolVal(True)
        if isinstance(v, VObj):
            for c in v.classes:
                if source.find_method(c, "__bool__") or source.find_method(c, "__len__"):
                    raise Unsupported("truthiness through user __bool__/__len__ of %s" % c)
            return z3.BoolVal(True)
        raise Unsupported("truthiness of %r" % (v,))

    # ------------------------------------------------------------ expression evaluation
    def ev(self, e, st, ctx, k):
        m = getattr(self, "ev_" + type(e).__name__, None)
        if m is None:
            raise Unsupported("expression %s at line %s" % (type(e).__name__, getattr(e, "lineno", "?")))
        return m(e, st, ctx, k)

    def ev_list(self, es, st, ctx, k, acc=None):
        """Evaluate expressions left to right; Starred elements are spliced when they are tuples."""
        acc = acc or []
        if not es:
            return k(st, acc)
        e = es[0]
        if isinstance(e, ast.Starred):
            def after(st1, v):
                self.splice(st1, ctx, v, e, lambda st2, items: self.ev_list(es[1:], st2, ctx, k, acc + items))
            return self.ev(e.value, st, ctx, after)
        return self.ev(e, st, ctx, lambda st1, v: self.ev_list(es[1:], st1, ctx, k, acc + [v]))

    def splice(self, st, ctx, v, node, k):
        if isinstance(v, VTuple):
            return k(st, list(v.items))
        return self.unpack(st, ctx, v, None, node, k)

    def ev_Constant(self, e, st, ctx, k):
        c = e.value
        if c is None:
            return k(st, VNone())
        if isinstance(c, bool):
            return k(st, VBool(c))
        if isinstance(c, int):
            return k(st, VInt(c))
        if isinstance(c, str):
            return k(st, VStr(c))
        if isinstance(c, float):
            return k(st, VU(z3.Const("float!%r" % c, USort)))
        raise Unsupported("constant %r" % (c,))

    def ev_Name(self, e, st, ctx, k):
        n = e.id
        if n in st.store:
            ub = getattr(st, "unbound_when", {}).get(n)
            if ub is not None:
                # bound on some of the joined paths only: reading it on the others is Python's UnboundLocalError
                return self.branch(st, ub, lambda s: self.raise_(s, ctx, "UnboundLocalError", e.lineno), lambda s: k(s, s.store[n]))
            return k(st, st.store[n])
        v = self.global_name(n, st, ctx)
        if v is None:
            # not bound on this path and not a known global: Python raises UnboundLocalError / NameError here
            return self.raise_(st, ctx, "UnboundLocalError", e.lineno)
        return k(st, v)

    def global_name(self, n, st, ctx):
        if n in ("True", "False"):
            return VBool(n == "True")
        if n in BUILTINS:
            return VFunc("builtin", name=n)
        if n in source.classes() or n in EXC_PARENTS or n in ("Fiber", "Exception"):
            return VFunc("class", name=n)
        if n in ("bisect", "copy", "pickle", "math", "random", "yaml", "logging", "numbers", "os", "csv"):
            return VFunc("module", name=n)
        if n == "ANY":
            return VFunc("class", name="ANY")
        # module-level function of the file under verification
        fi = getattr(ctx, "file", self.file)
        tree, _ = source.module_ast(fi)
        for node in tree.body:
            if isinstance(node, ast.FunctionDef) and node.name == n:
                return VFunc("def", node=node, env=None, file=fi, qual=n)
        return None

    def ev_Tuple(self, e, st, ctx, k):
        return self.ev_list(e.elts, st, ctx, lambda st1, vs: k(st1, VTuple(vs)))

    def ev_List(self, e, st, ctx, k):
        def done(st1, vs):
            if not vs:
                lst = new_list(st1, None, z3.IntVal(0), [])
                return k(st1, lst)
            ty = self.join_types([ty_of(v) for v in vs])
            arrs = [z3.K(I, d) for d in [self._dflt(s) for s in comp_sorts(ty)]]
            for i, v in enumerate(vs):
                ts = to_terms(coerce(v, ty), ty)
                arrs = [z3.Store(a, i, t) for a, t in zip(arrs, ts)]
            return k(st1, new_list(st1, ty, z3.IntVal(len(vs)), arrs))
        return self.ev_list(e.elts, st, ctx, done)

    def _dflt(self, s):
        if s == I:
            return z3.IntVal(0)
        if s == B:
            return z3.BoolVal(False)
        return z3.Const("dflt!" + sort_key(s), s)

    def join_types(self, tys):
        t = tys[0]
        for u in tys[1:]:
            t = self.join2(t, u)
        return t

    def join2(self, t, u):
        if t == u:
            return t
        if t.k == "none":
            return u if u.k == "opt" else Ty("opt", u)
        if u.k == "none":
            return t if t.k == "opt" else Ty("opt", t)
        if t.k == "opt" and u.k == "opt":
            return Ty("opt", self.join2(t.a[0], u.a[0]))
        if t.k == "opt":
            return Ty("opt", self.join2(t.a[0], u))
        if u.k == "opt":
            return Ty("opt", self.join2(t, u.a[0]))
        if t.k == "ref" and u.k == "ref":
            return Ty("ref", *sorted(set(t.a) | set(u.a)))
        if {t.k, u.k} <= {"int", "bool"}:
            return Ty("int")
        if {t.k, u.k} <= {"int", "bool", "U"}:
            return Ty("U")
        if t.k == "tuple" and u.k == "tuple" and len(t.a) == len(u.a):
            return Ty("tuple", *[self.join2(a, b) for a, b in zip(t.a, u.a)])
        if t.k == "list" and u.k == "list":
            if t.a[0] is None:
                return u
            if u.a[0] is None:
                return t
        raise Unsupported("cannot join types %r and %r" % (t, u))

    def ev_Dict(self, e, st, ctx, k):
        if e.keys:
            raise Unsupported("non-empty dict literal (line %d)" % e.lineno)
        k(st, VDict({}))

    def ev_BoolOp(self, e, st, ctx, k):
        is_and = isinstance(e.op, ast.And)

        def go(i, st1):
            def after(st2, v):
                if i == len(e.values) - 1:
                    return k(st2, v)
                self.truth_fork(st2, ctx, v,
                                (lambda s: go(i + 1, s)) if is_and else (lambda s: k(s, v)),
                                (lambda s: k(s, v)) if is_and else (lambda s: go(i + 1, s)))
            self.ev(e.values[i], st1, ctx, after)
        go(0, st)

    def truth_fork(self, st, ctx, v, k_true, k_false):
        """Fork on the truthiness of v (dispatching user-defined __bool__/__len__)."""
        if isinstance(v, VObj):
            for c in v.classes:
                for dn in ("__bool__", "__len__"):
                    if source.find_method(c, dn):
                        def got(st1, r, dn=dn):
                            self.truth_fork(st1, ctx, r, k_true, k_false)
                        return self.call_method(st, ctx, v, dn, [], {}, got, None)
        self.branch(st, self.truth(st, v), k_true, k_false)

    def ev_UnaryOp(self, e, st, ctx, k):
        def after(st1, v):
            if isinstance(e.op, ast.Not):
                return self.truth_fork(st1, ctx, v, lambda s: k(s, VBool(False)), lambda s: k(s, VBool(True))) \
                    if isinstance(v, VObj) else k(st1, VBool(z3.Not(self.truth(st1, v))))
            if isinstance(e.op, ast.USub):
                if isinstance(v, (VInt, VBool)):
                    return k(st1, VInt(0 - ops.to_int(v)))
                if isinstance(v, VU):
                    return k(st1, VU(ops.uop("neg", USort, 1)(v.t)))
            if isinstance(e.op, ast.UAdd) and isinstance(v, (VInt, VU)):
                return k(st1, v)
            raise Unsupported("unary %s on %r" % (type(e.op).__name__, v))
        self.ev(e.operand, st, ctx, after)

    def ev_IfExp(self, e, st, ctx, k):
        self.ev(e.test, st, ctx, lambda st1, c: self.truth_fork(
            st1, ctx, c, lambda s: self.ev(e.body, s, ctx, k), lambda s: self.ev(e.orelse, s, ctx, k)))

    def ev_BinOp(self, e, st, ctx, k):
        name = ops.BINOP_NAMES.get(type(e.op))
        if name is None:
            raise Unsupported("operator %s" % type(e.op).__name__)
        self.ev(e.left, st, ctx, lambda st1, a: self.ev(e.right, st1, ctx, lambda st2, b: self.binop(
            st2, ctx, name, a, b, k, e)))

    def unwrap(self, st, ctx, v, node, k, what="None operand"):
        """Use an option value where a non-None is needed: the None case raises TypeError."""
        if isinstance(v, VOpt):
            return self.branch(st, v.isnone,
                               lambda s: self.raise_(s, ctx, "TypeError", getattr(node, "lineno", None)),
                               lambda s: k(s, v.val))
        return k(st, v)

    def binop(self, st, ctx, name, a, b, k, node):
        if isinstance(a, VOpt):
            return self.unwrap(st, ctx, a, node, lambda s, x: self.binop(s, ctx, name, x, b, k, node))
        if isinstance(b, VOpt):
            return self.unwrap(st, ctx, b, node, lambda s, x: self.binop(s, ctx, name, a, x, k, node))
        line = getattr(node, "lineno", None)
        if isinstance(a, VObj):
            return self.obj_binop(st, ctx, name, a, b, k, node)
        if isinstance(b, VObj):
            return self.obj_rbinop(st, ctx, name, a, b, k, node)
        if isinstance(a, VList) and isinstance(b, VList) and name == "add":
            return k(st, list_concat(st, a, b))
        if isinstance(a, VList) and name == "mul" and isinstance(b, VInt):
            # [x] * n
            n = list_len(st, a)
            if z3.is_int_value(z3.simplify(n)) and z3.simplify(n).as_long() == 1:
                x = list_get(st, a, z3.IntVal(0))
                arrs = [z3.K(I, t) for t in to_terms(x, a.elem)]
                self.oblige(st, "line%s::list-repeat-count-nonneg" % line, b.t >= 0, line)
                return k(st, new_list(st, a.elem, b.t, arrs))
            raise Unsupported("list repetition of a non-singleton")
        if name in ("floordiv", "mod", "truediv") and ops.to_int(b) is not None and ops.to_int(a) is not None:
            d = ops.to_int(b)
            return self.branch(st, d == 0, lambda s: self.raise_(s, ctx, "ZeroDivisionError", line),
                               lambda s: k(s, ops.prim_binop(name, a, b)))
        try:
            r = ops.prim_binop(name, a, b)
        except PyRaise as pr:
            return self.raise_(st, ctx, pr.exc, line)
        return k(st, r)

    def obj_binop(self, st, ctx, name, a, b, k, node):
        dn = "__%s__" % name
        line = getattr(node, "lineno", None)

        def per_class(st1, cls):
            a1 = VObj((cls,), a.t)
            if source.find_method(cls, dn):
                return self.call_method(st1, ctx, a1, dn, [b], {}, k, node)
            # reflected operator of the right operand
            if isinstance(b, VObj):
                return self.obj_rbinop(st1, ctx, name, a1, b, k, node, tried_left=True)
            return self.raise_(st1, ctx, "TypeError", line)
        self.for_classes(st, a, per_class)

    def obj_rbinop(self, st, ctx, name, a, b, k, node, tried_left=False):
        rn = "__r%s__" % name
        line = getattr(node, "lineno", None)

        def per_class(st1, cls):
            b1 = VObj((cls,), b.t)
            if source.find_method(cls, rn):
                return self.call_method(st1, ctx, b1, rn, [a], {}, k, node)
            return self.raise_(st1, ctx, "TypeError", line)
        self.for_classes(st, b, per_class)

    def for_classes(self, st, obj, fn):
        """Fork over the possible classes of an object reference."""
        if len(obj.classes) == 1:
            return fn(st, obj.classes[0])
        for c in obj.classes:
            s = st.fork()
            s.assume(cls_of(obj.t) == class_tag(c))
            if self.feasible(s):
                fn(s, c)

    def ev_Compare(self, e, st, ctx, k):
        def go(i, st1, left):
            def after(st2, right):
                def got(st3, r):
                    if i == len(e.ops) - 1:
                        return k(st3, r)
                    self.truth_fork(st3, ctx, r, lambda s: go(i + 1, s, right), lambda s: k(s, r))
                self.compare(st2, ctx, e.ops[i], left, right, got, e)
            self.ev(e.comparators[i], st1, ctx, after)
        self.ev(e.left, st, ctx, lambda st1, l: go(0, st1, l))

    def compare(self, st, ctx, op, a, b, k, node):
        line = getattr(node, "lineno", None)
        if isinstance(op, (ast.Is, ast.IsNot)):
            t = ops.identity(a, b)
            return k(st, VBool(t if isinstance(op, ast.Is) else z3.Not(t)))
        if isinstance(op, (ast.In, ast.NotIn)):
            return self.contains(st, ctx, a, b, isinstance(op, ast.NotIn), k, node)
        name = ops.CMP_NAMES[type(op)]
        if isinstance(a, VFunc) and isinstance(b, VFunc) and a.kind in ("class", "typeof", "builtin") and b.kind in ("class", "typeof", "builtin") \
                and name in ("eq", "ne"):
            same = a.name == b.name            # class / type objects compare by identity
            return k(st, VBool(same if name == "eq" else not same))
        # options: == / != with None are total; orderings unwrap
        if isinstance(a, VOpt) or isinstance(b, VOpt):
            if name in ("eq", "ne") and (isinstance(a, (VNone, VOpt)) and isinstance(b, (VNone, VOpt))) and \
                    not any(isinstance(x, VOpt) and isinstance(x.val, VObj) for x in (a, b)):
                t = ops.val_eq(a, b)
                return k(st, VBool(t if name == "eq" else z3.Not(t)))
            if isinstance(a, VOpt):
                return self.branch(st, a.isnone, lambda s: self.compare(s, ctx, op, VNone(), b, k, node),
                                   lambda s: self.compare(s, ctx, op, a.val, b, k, node))
            return self.branch(st, b.isnone, lambda s: self.compare(s, ctx, op, a, VNone(), k, node),
                               lambda s: self.compare(s, ctx, op, a, b.val, k, node))
        if isinstance(a, VObj):
            dn = "__%s__" % name

            def per_class(st1, cls):
                a1 = VObj((cls,), a.t)
                if source.find_method(cls, dn):
                    return self.call_method(st1, ctx, a1, dn, [b], {}, k, node)
                if name == "ne" and source.find_method(cls, "__eq__"):
                    # default __ne__ inverts __eq__
                    return self.call_method(st1, ctx, a1, "__eq__", [b], {}, lambda s, r: self.truth_fork(
                        s, ctx, r, lambda s2: k(s2, VBool(False)), lambda s2: k(s2, VBool(True))), node)
                if isinstance(b, VObj):
                    return self.rcompare(st1, ctx, name, a1, b, k, node)
                if name in ("eq", "ne"):
                    return k(st1, VBool(name == "ne"))
                return self.raise_(st1, ctx, "TypeError", line)
            return self.for_classes(st, a, per_class)
        if isinstance(b, VObj):
            return self.rcompare(st, ctx, name, a, b, k, node)
        if isinstance(a, VNone) or isinstance(b, VNone):
            if name in ("eq", "ne"):
                both = isinstance(a, VNone) and isinstance(b, VNone)
                return k(st, VBool(both if name == "eq" else not both))
            return self.raise_(st, ctx, "TypeError", line)
        try:
            t = ops.prim_compare(name, a, b)
        except PyRaise as pr:
            return self.raise_(st, ctx, pr.exc, line)
        return k(st, VBool(t))

    def rcompare(self, st, ctx, name, a, b, k, node):
        rn = "__%s__" % ops.SWAPPED[name]
        line = getattr(node, "lineno", None)

        def per_class(st1, cls):
            b1 = VObj((cls,), b.t)
            if source.find_method(cls, rn):
                return self.call_method(st1, ctx, b1, rn, [a], {}, k, node)
            if name in ("eq", "ne"):
                if isinstance(a, VObj):
                    t = a.t == b.t
                    return k(st1, VBool(t if name == "eq" else z3.Not(t)))
                return k(st1, VBool(name == "ne"))
            return self.raise_(st1, ctx, "TypeError", line)
        self.for_classes(st, b, per_class)

    def contains(self, st, ctx, a, b, negate, k, node):
        if isinstance(b, VStr) and isinstance(a, VStr) and a.s is not None and b.s is not None:
            r = a.s in b.s
            return k(st, VBool(r != negate))
        if isinstance(b, VTuple):
            t = z3.Or([ops.val_eq(a, x) for x in b.items if type(x) is type(a)] + [z3.BoolVal(False)])
            return k(st, VBool(z3.Not(t) if negate else t))
        if isinstance(b, VDict) and isinstance(a, VStr) and a.s is not None:
            return k(st, VBool((a.s in b.d) != negate))
        if isinstance(b, VKeys) or isinstance(b, (VMap, VRow)):
            of = b.of if isinstance(b, VKeys) else b
            if isinstance(of, VMap) and isinstance(a, VStr):
                t = map_has_row(st, of, a.t)
                return k(st, VBool(z3.Not(t) if negate else t))
            if isinstance(of, VRow) and isinstance(a, VStr) and a.s is not None:
                t = map_has_field(st, of, a.s)
                return k(st, VBool(z3.Not(t) if negate else t))
            raise Unsupported("membership of a symbolic field name in a record")
        if isinstance(b, VList):
            n = list_len(st, b)
            j = z3.Int(fresh_name("j"))
            arrs = list_arrays(st, b)
            ts = to_terms(coerce(a, b.elem), b.elem)
            t = z3.Exists([j], z3.And(0 <= j, j < n, *[x[j] == y for x, y in zip(arrs, ts)]))
            return k(st, VBool(z3.Not(t) if negate else t))
        raise Unsupported("'in' on %r" % (b,))

    def ev_Lambda(self, e, st, ctx, k):
        fd = ast.FunctionDef(name="<lambda>", args=e.args, body=[ast.Return(value=e.body, lineno=e.lineno, col_offset=0)],
                             decorator_list=[], lineno=e.lineno, col_offset=0)
        k(st, VFunc("def", node=fd, env=dict(st.store), file=getattr(ctx, "file", self.file), qual="<lambda>", is_lambda=True))

    def ev_JoinedStr(self, e, st, ctx, k):
        # formatted strings are opaque: only their identity as "some string" is kept
        self.notes.append("f-string at line %d treated as an opaque string" % e.lineno)
        k(st, VStr(None, z3.Const(fresh_name("fstr"), StrSort)))

    def ev_Attribute(self, e, st, ctx, k):
        self.ev(e.value, st, ctx, lambda st1, o: self.getattr(st1, ctx, o, e.attr, k, e))

    def getattr(self, st, ctx, o, attr, k, node):
        line = getattr(node, "lineno", None)
        if isinstance(o, VOpt):
            return self.branch(st, o.isnone, lambda s: self.raise_(s, ctx, "AttributeError", line),
                               lambda s: self.getattr(s, ctx, o.val, attr, k, node))
        if isinstance(o, VNone):
            return self.raise_(st, ctx, "AttributeError", line)
        if isinstance(o, VObj) and attr == "__dict__":
            return k(st, VFunc("rawdict", obj=o))
        if isinstance(o, VFunc) and o.kind == "super" and attr == "__new__":
            return k(st, VFunc("builtin", name="object.__new__"))
        if isinstance(o, VObj):
            def per_class(st1, cls):
                o1 = VObj((cls,), o.t)
                dc, ty = field_decl(cls, attr)
                if ty is not None:
                    return k(st1, load_field(st1, o.t, cls, attr))
                if source.find_method(cls, attr):
                    return k(st1, VFunc("bound", obj=o1, name=attr))
                ci = self.closure_class_attr(st1, cls, attr)
                if ci is not None:
                    return k(st1, ci)
                if len(o.classes) > 1 and any(field_decl(c2, attr)[1] is not None or source.find_method(c2, attr) for c2 in o.classes if c2 != cls):
                    # one of several possible classes lacks the attribute the others declare: Python raises AttributeError there
                    self.assumptions.add("class %s has no attribute .%s (not declared in the field schema, no such method)" % (cls, attr))
                    return self.raise_(st1, ctx, "AttributeError", line)
                raise Unsupported("attribute %s.%s (line %s)" % (cls, attr, line))
            return self.for_classes(st, o, per_class)
        if isinstance(o, VFunc) and o.kind == "class":
            if attr == "__name__":
                return k(st, VStr(o.name))
            dc, ty = field_decl(o.name, attr)
            if ty is not None:   # class attribute used as static state (Metrics)
                return k(st, load_field(st, self.class_ref(o.name), o.name, attr))
            if source.find_method(o.name, attr):
                return k(st, VFunc("bound", obj=o, name=attr))
            raise Unsupported("class attribute %s.%s" % (o.name, attr))
        if isinstance(o, VFunc) and o.kind == "module":
            return k(st, VFunc("builtin", name=o.name + "." + attr))
        if isinstance(o, (VList, VTuple, VStr, VIter, VDict, VMap, VRow)):
            return k(st, VFunc("bound", obj=o, name=attr))
        if isinstance(o, (VU, VInt, VBool)):
            self.assumptions.add("a scalar payload value has no attribute named like a fibertree field (.%s)" % attr)
            return self.raise_(st, ctx, "AttributeError", line)
        if isinstance(o, VFunc) and o.kind == "typeof":
            if attr == "__name__":
                return k(st, VStr(o.name))
        raise Unsupported("attribute %s of %r (line %s)" % (attr, o, line))

    def closure_class_attr(self, st, cls, attr):
        return None

    def class_ref(self, cls):
        return z3.IntVal(-class_tag(cls))

    def ev_Subscript(self, e, st, ctx, k):
        def got_obj(st1, o):
            if isinstance(e.slice, ast.Slice):
                return self.ev_slice(e, st1, ctx, o, k)
            self.ev(e.slice, st1, ctx, lambda st2, i: self.index(st2, ctx, o, i, k, e))
        self.ev(e.value, st, ctx, got_obj)

    def norm_index(self, st, idx, n):
        """Translate a literal negative index; symbolic indices must be proved in range as they are."""
        s = z3.simplify(idx)
        if z3.is_int_value(s) and s.as_long() < 0:
            return n + s
        return idx

    def index(self, st, ctx, o, i, k, node):
        line = getattr(node, "lineno", None)
        if isinstance(o, VOpt):
            return self.unwrap(st, ctx, o, node, lambda s, x: self.index(s, ctx, x, i, k, node))
        if isinstance(i, VOpt):
            return self.unwrap(st, ctx, i, node, lambda s, x: self.index(s, ctx, o, x, k, node))
        if isinstance(o, VTuple):
            it = ops.to_int(i)
            if it is None:
                raise Unsupported("tuple index %r" % (i,))
            s = z3.simplify(it)
            if not z3.is_int_value(s):
                raise Unsupported("symbolic tuple index at line %s" % line)
            j = s.as_long()
            if not -len(o.items) <= j < len(o.items):
                return self.raise_(st, ctx, "IndexError", line)
            return k(st, o.items[j])
        if isinstance(o, VList):
            it = ops.to_int(i)
            if it is None:
                raise Unsupported("list index %r" % (i,))
            n = list_len(st, o)
            it = self.norm_index(st, it, n)
            inb = z3.And(0 <= it, it < n)
            if self.allows(ctx, "IndexError"):
                # Python's rule exactly: -n <= i < 0 addresses n + i, anything outside [-n, n) raises
                return self.branch(st, inb, lambda s: k(s, list_get(s, o, it)),
                                   lambda s: self.branch(s, z3.And(-n <= it, it < 0), lambda s2: k(s2, list_get(s2, o, n + it)),
                                                         lambda s2: self.raise_(s2, ctx, "IndexError", line)))
            self.oblige(st, "line%s::index-in-range" % line, inb, line)
            return k(st, list_get(st, o, it))
        if isinstance(o, VSeq):
            return k(st, seq_get(o, ops.to_int(i)))
        if isinstance(o, VMap) and isinstance(i, VStr):
            has = map_has_row(st, o, i.t)
            if self.allows(ctx, "KeyError"):
                return self.branch(st, has, lambda s: k(s, VRow(o, i.t)), lambda s: self.raise_(s, ctx, "KeyError", line))
            self.oblige(st, "line%s::map-row-present" % line, has, line)
            return k(st, VRow(o, i.t))
        if isinstance(o, VRow) and isinstance(i, VStr) and i.s is not None:
            has = map_has_field(st, o, i.s)
            if self.allows(ctx, "KeyError"):
                return self.branch(st, has, lambda s: k(s, map_get(s, o, i.s)), lambda s: self.raise_(s, ctx, "KeyError", line))
            self.oblige(st, "line%s::map-field-present(%s)" % (line, i.s), has, line)
            return k(st, map_get(st, o, i.s))
        if isinstance(o, VDict) and isinstance(i, VStr) and i.s is not None:
            if i.s in o.d:
                return k(st, o.d[i.s])
            return self.raise_(st, ctx, "KeyError", line)
        if isinstance(o, VObj):
            return self.call_method(st, ctx, o, "__getitem__", [i], {}, k, node)
        raise Unsupported("subscript of %r (line %s)" % (o, line))

    def allows(self, ctx, exc):
        """Is exc an allowed exceptional exit here (declared in `raises`, or inside a try that catches it)?"""
        return exc in getattr(ctx, "catching", ()) or exc in getattr(ctx, "allowed_raises", ())

    def ev_slice(self, e, st, ctx, o, k):
        sl = e.slice
        if sl.step is not None:
            raise Unsupported("slice step")

        def with_bounds(st1, lo, hi):
            if isinstance(o, VTuple):
                l = 0 if lo is None else z3.simplify(ops.to_int(lo))
                h = len(o.items) if hi is None else z3.simplify(ops.to_int(hi))
                if (lo is not None and not z3.is_int_value(l)) or (hi is not None and not z3.is_int_value(h)):
                    raise Unsupported("symbolic tuple slice")
                l = l.as_long() if lo is not None else 0
                h = h.as_long() if hi is not None else len(o.items)
                return k(st1, VTuple(o.items[l:h]))
            if isinstance(o, VList):
                n = list_len(st1, o)
                l = z3.IntVal(0) if lo is None else self.norm_index(st1, ops.to_int(lo), n)
                h = n if hi is None else self.norm_index(st1, ops.to_int(hi), n)
                # Python clamps: model the clamping exactly
                l = z3.If(l < 0, 0, z3.If(l > n, n, l))
                h = z3.If(h < l, l, z3.If(h > n, n, h))
                return k(st1, list_slice(st1, o, z3.simplify(l), z3.simplify(h)))
            raise Unsupported("slice of %r" % (o,))

        def ev_opt(x, st1, kk):
            if x is None:
                return kk(st1, None)
            self.ev(x, st1, ctx, lambda s, v: self.unwrap(s, ctx, v, e, kk) if isinstance(v, VOpt) else kk(s, v))
        ev_opt(sl.lower, st, lambda s1, lo: ev_opt(sl.upper, s1, lambda s2, hi: with_bounds(
            s2, None if isinstance(lo, VNone) else lo, None if isinstance(hi, VNone) else hi)))

    def ev_Call(self, e, st, ctx, k):
        raise NotImplementedError

    def ev_Starred(self, e, st, ctx, k):
        raise Unsupported("starred expression outside call/tuple")


BUILTINS = {"len", "range", "isinstance", "type", "str", "int", "bool", "abs", "min", "max", "tuple", "list",
            "reversed", "enumerate", "zip", "id", "print", "next", "sorted", "all", "any", "sum", "iter", "super",
            "float", "chr", "ord", "set", "dict", "frozenset", "hasattr", "getattr", "exit", "callable", "divmod", "round"}
