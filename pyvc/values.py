"""Symbolic values and type descriptors of pyvc."""
import z3

USort = z3.DeclareSort("U")      # opaque payload values (ints, floats, ... under uninterpreted operators)
StrSort = z3.DeclareSort("Str")  # symbolic strings: equality only
I = z3.IntSort()
B = z3.BoolSort()


class Unsupported(Exception):
    """The function leaves the modelled subset: the function is then not P-tier."""


class StaleContract(Exception):
    """The contract no longer matches the code (missing function, loop ordinal, local)."""


# --------------------------------------------------------------------------- types
class Ty:
    __slots__ = ("k", "a")

    def __init__(self, k, *a):
        self.k = k
        self.a = a

    def __repr__(self):
        if self.k == "ref":
            return "|".join(self.a)
        if self.a:
            return "%s[%s]" % (self.k, ",".join(map(repr, self.a)))
        return self.k

    def __eq__(self, o):
        return isinstance(o, Ty) and self.k == o.k and self.a == o.a

    def __hash__(self):
        return hash((self.k, self.a))


_PRIM = {"int", "bool", "U", "str", "none", "func", "any", "map"}


def parse_ty(s):
    if isinstance(s, Ty):
        return s
    s = s.strip()
    pos = [0]

    def name():
        j = pos[0]
        while j < len(s) and (s[j].isalnum() or s[j] in "_|."):
            j += 1
        n = s[pos[0]:j]
        pos[0] = j
        return n

    def ty():
        n = name()
        args = []
        if pos[0] < len(s) and s[pos[0]] == "[":
            pos[0] += 1
            while True:
                while s[pos[0]] == " ":
                    pos[0] += 1
                args.append(ty())
                while s[pos[0]] == " ":
                    pos[0] += 1
                if s[pos[0]] == ",":
                    pos[0] += 1
                    continue
                assert s[pos[0]] == "]", s
                pos[0] += 1
                break
        if n in _PRIM:
            return Ty(n)
        if n in ("list", "opt", "tuple", "seq", "iter"):
            return Ty(n, *args)
        return Ty("ref", *n.split("|"))

    t = ty()
    assert pos[0] == len(s), "bad type %r" % s
    return t


# --------------------------------------------------------------------------- values
class V:
    pass


class VInt(V):
    def __init__(self, t):
        self.t = z3.IntVal(t) if isinstance(t, int) else t

    def __repr__(self):
        return "VInt(%s)" % self.t


class VBool(V):
    def __init__(self, t):
        self.t = z3.BoolVal(t) if isinstance(t, bool) else t

    def __repr__(self):
        return "VBool(%s)" % self.t


class VNone(V):
    def __repr__(self):
        return "VNone"


class VStr(V):
    """A string: concrete python str (s) or symbolic (t of StrSort)."""

    _consts = {}

    def __init__(self, s=None, t=None):
        self.s = s
        if t is None:
            t = VStr._consts.get(s)
            if t is None:
                t = z3.Const("str!%d" % len(VStr._consts), StrSort)
                VStr._consts[s] = t
        self.t = t

    def __repr__(self):
        return "VStr(%r)" % (self.s if self.s is not None else self.t)

    @staticmethod
    def distinct_axiom():
        cs = list(VStr._consts.values())
        return z3.Distinct(*cs) if len(cs) > 1 else z3.BoolVal(True)


class VU(V):
    def __init__(self, t):
        self.t = t

    def __repr__(self):
        return "VU(%s)" % self.t


class VObj(V):
    """Reference to a heap object; classes = tuple of possible class names."""

    def __init__(self, classes, t):
        self.classes = tuple(classes)
        self.t = t

    def __repr__(self):
        return "VObj(%s,%s)" % ("|".join(self.classes), self.t)


class VList(V):
    """Reference to a heap list with element type elem."""

    def __init__(self, elem, t):
        self.elem = elem
        self.t = t

    def __repr__(self):
        return "VList(%r,%s)" % (self.elem, self.t)


class VTuple(V):
    def __init__(self, items):
        self.items = list(items)

    def __repr__(self):
        return "VTuple(%r)" % (self.items,)


class VOpt(V):
    """Either None (isnone) or val."""

    def __init__(self, isnone, val):
        self.isnone = isnone
        self.val = val

    def __repr__(self):
        return "VOpt(%s,%r)" % (self.isnone, self.val)


class VSeq(V):
    """Immutable ghost sequence: length term + one array per flattened component."""

    def __init__(self, elem, n, comps):
        self.elem = elem
        self.n = n
        self.comps = list(comps)

    def __repr__(self):
        return "VSeq(%r,%s)" % (self.elem, self.n)


class VIter(V):
    """Abstract iterator: a ghost sequence and the name of its cursor cell."""

    def __init__(self, seq, cell):
        self.seq = seq
        self.cell = cell

    def __repr__(self):
        return "VIter(%r,%s)" % (self.seq, self.cell)


class VFunc(V):
    """Callable.  kind: 'def' (node, closure env, file, qual), 'bound' (obj, name),
    'builtin' (name), 'uf' (name, argtys, retty), 'class' (name), 'module' (name)."""

    def __init__(self, kind, **kw):
        self.kind = kind
        self.__dict__.update(kw)

    def __repr__(self):
        return "VFunc(%s,%s)" % (self.kind, {k: v for k, v in self.__dict__.items() if k not in ("kind", "env", "node")})


class VMap(V):
    """A symbolic two-level string-keyed record map (Format.spec): map[row][field].  One array per field, indexed by the
    row key (a string term); presence tracked per row and per field."""

    FIELDS = {}      # map name -> {field: "int"|"str"}

    def __init__(self, name):
        self.name = name


class VRow(V):
    def __init__(self, m, key):
        self.m = m
        self.key = key      # z3 term of StrSort


class VKeys(V):
    def __init__(self, of):
        self.of = of        # VMap or VRow


class VDict(V):
    """Concrete-keyed dictionary (for **kwargs and small literal dicts)."""

    def __init__(self, d):
        self.d = dict(d)


# --------------------------------------------------------------------------- class tags
CLASS_TAGS = {}
cls_of = z3.Function("cls_of", I, I)


def class_tag(name):
    if name not in CLASS_TAGS:
        CLASS_TAGS[name] = len(CLASS_TAGS) + 1
    return CLASS_TAGS[name]


# --------------------------------------------------------------------------- flattening
_fresh_ctr = [0]


def fresh_name(base):
    _fresh_ctr[0] += 1
    return "%s!%d" % (base, _fresh_ctr[0])


def comp_sorts(ty):
    """Flattened component sorts of a type (used for fields, list elements, sequences)."""
    k = ty.k
    if k in ("int", "ref", "list"):
        return [I]
    if k == "bool":
        return [B]
    if k in ("U", "any"):
        return [USort]
    if k == "str":
        return [StrSort]
    if k in ("none", "map"):
        return []
    if k == "opt":
        return [B] + comp_sorts(ty.a[0])
    if k == "tuple":
        r = []
        for a in ty.a:
            r += comp_sorts(a)
        return r
    if k in ("seq", "iter"):
        return [I] + [z3.ArraySort(I, s) for s in comp_sorts(ty.a[0])]
    raise Unsupported("no flattening for type %r" % ty)


def to_terms(v, ty):
    """Flatten value v (already coerced to ty) to z3 terms."""
    k = ty.k
    if k in ("int", "bool", "U", "any", "str"):
        return [v.t]
    if k in ("ref", "list"):
        return [v.t]
    if k == "none":
        return []
    if k == "opt":
        return [v.isnone] + to_terms(v.val, ty.a[0])
    if k == "tuple":
        r = []
        for x, a in zip(v.items, ty.a):
            r += to_terms(x, a)
        return r
    if k == "seq":
        return [v.n] + list(v.comps)
    raise Unsupported("to_terms %r" % ty)


def from_terms(ts, ty):
    """Inverse of to_terms; consumes from list ts (front)."""
    k = ty.k
    if k == "int":
        return VInt(ts.pop(0))
    if k == "bool":
        return VBool(ts.pop(0))
    if k in ("U", "any"):
        return VU(ts.pop(0))
    if k == "str":
        return VStr(None, ts.pop(0))
    if k == "ref":
        return VObj(ty.a, ts.pop(0))
    if k == "list":
        return VList(ty.a[0], ts.pop(0))
    if k == "none":
        return VNone()
    if k == "opt":
        n = ts.pop(0)
        return VOpt(n, from_terms(ts, ty.a[0]))
    if k == "tuple":
        return VTuple([from_terms(ts, a) for a in ty.a])
    if k == "seq":
        n = ts.pop(0)
        m = len(comp_sorts(ty.a[0]))
        comps = [ts.pop(0) for _ in range(m)]
        return VSeq(ty.a[0], n, comps)
    raise Unsupported("from_terms %r" % ty)


def fresh_terms(ty, base):
    return [z3.Const(fresh_name(base), s) for s in comp_sorts(ty)]


def ty_of(v):
    """Best static type of a value."""
    if isinstance(v, VInt):
        return Ty("int")
    if isinstance(v, VBool):
        return Ty("bool")
    if isinstance(v, VU):
        return Ty("U")
    if isinstance(v, VStr):
        return Ty("str")
    if isinstance(v, VNone):
        return Ty("none")
    if isinstance(v, VObj):
        return Ty("ref", *v.classes)
    if isinstance(v, VList):
        return Ty("list", v.elem)
    if isinstance(v, VTuple):
        return Ty("tuple", *[ty_of(x) for x in v.items])
    if isinstance(v, VOpt):
        return Ty("opt", ty_of(v.val))
    if isinstance(v, VSeq):
        return Ty("seq", v.elem)
    if isinstance(v, VIter):
        return Ty("iter", v.seq.elem)
    if isinstance(v, VFunc):
        return Ty("func")
    raise Unsupported("ty_of %r" % (v,))


u_of_int = z3.Function("u_of_int", I, USort)
u_of_bool = z3.Function("u_of_bool", B, USort)
u_of_str = z3.Function("u_of_str", StrSort, USort)


def dummy(ty):
    """Some arbitrary value of the type (content of a None option)."""
    ts = [z3.Const("dummy!%s!%d" % (ty, i), s) for i, s in enumerate(comp_sorts(ty))]
    return from_terms(ts, ty)


def fits(v, ty):
    """Can v be passed where ty is declared (after coercion)?"""
    k = ty.k
    if k == "any":
        return isinstance(v, (VU, VInt, VBool, VStr))
    if k == "int":
        return isinstance(v, VInt) or isinstance(v, VBool)
    if k == "bool":
        return isinstance(v, VBool)
    if k == "U":
        return isinstance(v, (VU, VInt, VBool))
    if k == "str":
        return isinstance(v, VStr)
    if k == "none":
        return isinstance(v, VNone)
    if k == "ref":
        return isinstance(v, VObj) and set(v.classes) <= set(ty.a)
    if k == "list":
        return isinstance(v, VList) and (v.elem == ty.a[0] or v.elem is None)
    if k == "opt":
        if isinstance(v, VNone):
            return True
        if isinstance(v, VOpt):
            return fits(v.val, ty.a[0])
        return fits(v, ty.a[0])
    if k == "tuple":
        return isinstance(v, VTuple) and len(v.items) == len(ty.a) and all(fits(x, a) for x, a in zip(v.items, ty.a))
    if k == "seq":
        return isinstance(v, VSeq)
    if k == "iter":
        return isinstance(v, VIter)
    if k == "func":
        return isinstance(v, VFunc)
    if k == "map":
        return isinstance(v, VMap)
    return False


def coerce(v, ty):
    """Convert v to the representation of ty (v must fit)."""
    k = ty.k
    if k == "int" and isinstance(v, VBool):
        return VInt(z3.If(v.t, 1, 0))
    if k in ("U", "any"):
        if isinstance(v, VInt):
            return VU(u_of_int(v.t))
        if isinstance(v, VBool):
            return VU(u_of_bool(v.t))
        if isinstance(v, VStr):
            return VU(u_of_str(v.t))
        return v
    if k == "opt":
        if isinstance(v, VNone):
            return VOpt(z3.BoolVal(True), dummy(ty.a[0]))
        if isinstance(v, VOpt):
            return VOpt(v.isnone, coerce(v.val, ty.a[0]))
        return VOpt(z3.BoolVal(False), coerce(v, ty.a[0]))
    if k == "tuple":
        return VTuple([coerce(x, a) for x, a in zip(v.items, ty.a)])
    if k == "list" and isinstance(v, VList) and v.elem is None:
        return VList(ty.a[0], v.t)
    return v
