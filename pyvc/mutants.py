"""Built-in mutants: in-memory AST edits of the function under verification.
Each must make at least one obligation fail; a survivor marks the contract as too weak (or the mutant as equivalent).
"""
import ast
import copy

CMP_FLIP = {ast.Lt: ast.LtE, ast.LtE: ast.Lt, ast.Gt: ast.GtE, ast.GtE: ast.Gt, ast.Eq: ast.NotEq, ast.NotEq: ast.Eq,
            ast.Is: ast.IsNot, ast.IsNot: ast.Is}
BIN_FLIP = {ast.Add: ast.Sub, ast.Sub: ast.Add, ast.Mult: ast.Add, ast.Div: ast.Mult, ast.FloorDiv: ast.Mult,
            ast.BitAnd: ast.BitOr, ast.BitOr: ast.BitAnd, ast.LShift: ast.RShift, ast.Mod: ast.FloorDiv}


def sites(fn):
    """Enumerate mutation sites of a function (not descending into nested defs/classes)."""
    out = []

    def visit(node, parent_body=None, idx=None):
        for child in ast.iter_child_nodes(node):
            if isinstance(child, (ast.FunctionDef, ast.ClassDef, ast.Lambda)) and child is not fn:
                continue
            if isinstance(child, ast.Compare):
                for j, op in enumerate(child.ops):
                    if type(op) in CMP_FLIP:
                        out.append(("cmp", child, j))
            if isinstance(child, ast.BinOp) and type(child.op) in BIN_FLIP:
                out.append(("bin", child, None))
            if isinstance(child, ast.AugAssign) and type(child.op) in BIN_FLIP:
                out.append(("aug", child, None))
            if isinstance(child, ast.Constant) and isinstance(child.value, int) and not isinstance(child.value, bool):
                out.append(("const", child, None))
            if isinstance(child, ast.If):
                out.append(("negif", child, None))
            if isinstance(child, ast.BoolOp):
                out.append(("boolop", child, None))
            if isinstance(child, (ast.Return,)) and child.value is not None and isinstance(child.value, ast.Name):
                pass
            visit(child)
        for fld in ("body", "orelse"):
            body = getattr(node, fld, None)
            if isinstance(body, list):
                for i, s in enumerate(body):
                    if isinstance(s, (ast.Assign, ast.AugAssign)) or (isinstance(s, ast.Expr) and isinstance(s.value, ast.Call)):
                        if not (isinstance(s, ast.Expr) and isinstance(s.value.func, ast.Name) and s.value.func.id == "print"):
                            out.append(("drop", node, (fld, i)))
    visit(fn)
    return out


def describe(fn, idx):
    kind, node, extra = sites(fn)[idx]
    line = getattr(node, "lineno", "?")
    if kind == "drop":
        fld, i = extra
        line = getattr(node, fld)[i].lineno
    return "%s@line%s" % (kind, line)


def apply(fn, idx):
    fn2 = copy.deepcopy(fn)
    kind, node, extra = sites(fn2)[idx]
    if kind == "cmp":
        node.ops[extra] = CMP_FLIP[type(node.ops[extra])]()
    elif kind in ("bin", "aug"):
        node.op = BIN_FLIP[type(node.op)]()
    elif kind == "const":
        node.value = node.value + 1
    elif kind == "negif":
        node.test = ast.UnaryOp(op=ast.Not(), operand=node.test, lineno=node.lineno, col_offset=0)
    elif kind == "boolop":
        node.op = ast.Or() if isinstance(node.op, ast.And) else ast.And()
    elif kind == "drop":
        fld, i = extra
        getattr(node, fld)[i] = ast.Pass(lineno=getattr(node, fld)[i].lineno, col_offset=0)
    ast.fix_missing_locations(fn2)
    return fn2


def make_hook(mutant):
    idx = mutant

    def hook(node):
        return apply(node, idx)
    return hook
