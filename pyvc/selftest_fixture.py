"""Fixture for the engine self-test (this file is the 'repository' of the self-test, not fibertree code)."""


class Box:
    def __init__(self, v=0):
        self.v = v

    def bump(self, d):
        self.v = self.v + d
        return self


def find_first_ge(xs, c):
    """Linear search: first index whose element is >= c."""
    i = 0
    while i < len(xs) and xs[i] < c:
        i += 1
    return i


def find_first_ge_broken(xs, c):
    i = 0
    while i < len(xs) and xs[i] <= c:
        i += 1
    return i


def insert_sorted(xs, c):
    pos = find_first_ge(xs, c)
    xs.insert(pos, c)
    return pos


def evens(n):
    for i in range(n):
        if i % 2 == 0:
            yield i


def pick(x, *, flip=False):
    if flip:
        return -x
    return x


def use_pick_flipped(x):
    # a call that passes a keyword the first contract case of pick() does not list must not be given that case
    return pick(x, flip=True)


def at(xs, i):
    # Python's index rule: -len <= i < 0 addresses len + i, anything outside [-len, len) raises IndexError
    return xs[i]


def cond_bound(n):
    if n > 0:
        d = 1
    i = 0
    while i < n:
        i += d          # d is bound on every path that gets here
    return i


def cond_bound_broken(n):
    if n > 0:
        d = 1
    return d            # UnboundLocalError when n <= 0
