"""Primitive operators on symbolic values (no heap effects, no forking)."""
import ast
import z3

from .values import (I, B, USort, StrSort, V, VInt, VBool, VNone, VStr, VU, VObj, VList, VTuple, VOpt, VSeq, VIter,
                     VFunc, Unsupported, u_of_int, u_of_bool, u_of_str)

# Uninterpreted operators on opaque payload values: "the same operator on the underlying values".
_UOPS = {}


def uop(name, ret=USort, arity=2):
    k = (name, arity)
    if k not in _UOPS:
        _UOPS[k] = z3.Function("U_" + name, *([USort] * arity + [ret]))
    return _UOPS[k]


BINOP_NAMES = {
    ast.Add: "add", ast.Sub: "sub", ast.Mult: "mul", ast.Div: "truediv", ast.FloorDiv: "floordiv",
    ast.Mod: "mod", ast.LShift: "lshift", ast.RShift: "rshift", ast.BitAnd: "and", ast.BitOr: "or",
    ast.BitXor: "xor", ast.Pow: "pow", ast.MatMult: "matmul",
}
CMP_NAMES = {ast.Eq: "eq", ast.NotEq: "ne", ast.Lt: "lt", ast.LtE: "le", ast.Gt: "gt", ast.GtE: "ge"}
SWAPPED = {"lt": "gt", "gt": "lt", "le": "ge", "ge": "le", "eq": "eq", "ne": "ne"}


def as_u(v):
    if isinstance(v, VU):
        return v.t
    if isinstance(v, VInt):
        return u_of_int(v.t)
    if isinstance(v, VBool):
        return u_of_bool(v.t)
    if isinstance(v, VStr):
        return u_of_str(v.t)
    raise Unsupported("not a scalar: %r" % (v,))


def is_scalar(v):
    return isinstance(v, (VInt, VBool, VU))


def is_prim(v):
    return isinstance(v, (VInt, VBool, VU, VStr, VNone, VTuple))


class PyRaise(Exception):
    """Raised by primitive ops to signal a definite Python exception."""

    def __init__(self, exc, msg=""):
        self.exc = exc
        self.msg = msg


def floor_div(a, b):
    """Python floor division on z3 ints (z3 div rounds toward -inf only for a positive divisor)."""
    return z3.If(b > 0, a / b, (0 - a) / (0 - b))


def py_mod(a, b):
    return a - b * floor_div(a, b)


def int_binop(name, a, b):
    if name == "add":
        return VInt(a + b)
    if name == "sub":
        return VInt(a - b)
    if name == "mul":
        return VInt(a * b)
    if name == "floordiv":
        return VInt(floor_div(a, b))
    if name == "mod":
        return VInt(py_mod(a, b))
    raise Unsupported("int operator %s" % name)


def to_int(v):
    if isinstance(v, VInt):
        return v.t
    if isinstance(v, VBool):
        return z3.If(v.t, 1, 0)
    return None


def prim_binop(name, a, b):
    """Binary operator on primitive values; returns V or raises Unsupported/PyRaise."""
    ia, ib = to_int(a), to_int(b)
    if ia is not None and ib is not None and not (isinstance(a, VBool) and isinstance(b, VBool) and name in ("and", "or", "xor")):
        if name in ("add", "sub", "mul", "floordiv", "mod"):
            return int_binop(name, ia, ib)
        return VU(uop(name)(u_of_int(ia), u_of_int(ib)))
    if isinstance(a, VBool) and isinstance(b, VBool):
        if name == "and":
            return VBool(z3.And(a.t, b.t))
        if name == "or":
            return VBool(z3.Or(a.t, b.t))
        if name == "xor":
            return VBool(z3.Xor(a.t, b.t))
    if is_scalar(a) and is_scalar(b):
        return VU(uop(name)(as_u(a), as_u(b)))
    if isinstance(a, VStr) and isinstance(b, VStr) and name == "add":
        if a.s is not None and b.s is not None:
            return VStr(a.s + b.s)
        return VStr(None, z3.Function("str_concat", StrSort, StrSort, StrSort)(a.t, b.t))
    if isinstance(a, VTuple) and isinstance(b, VTuple) and name == "add":
        return VTuple(a.items + b.items)
    if isinstance(a, VTuple) and name == "mul" and isinstance(b, VInt) and z3.is_int_value(z3.simplify(b.t)):
        return VTuple(a.items * z3.simplify(b.t).as_long())
    if isinstance(a, VNone) or isinstance(b, VNone):
        raise PyRaise("TypeError", "operator %s on None" % name)
    raise Unsupported("binop %s on %r, %r" % (name, a, b))


def prim_compare(name, a, b):
    """Comparison on primitive values -> z3 Bool term."""
    if isinstance(a, VOpt) or isinstance(b, VOpt):
        raise Unsupported("compare on option (caller must unwrap)")
    if isinstance(a, VNone) or isinstance(b, VNone):
        if name == "eq":
            return z3.BoolVal(isinstance(a, VNone) and isinstance(b, VNone))
        if name == "ne":
            return z3.BoolVal(not (isinstance(a, VNone) and isinstance(b, VNone)))
        raise PyRaise("TypeError", "ordering with None")
    ia, ib = to_int(a), to_int(b)
    if ia is not None and ib is not None:
        return {"eq": ia == ib, "ne": ia != ib, "lt": ia < ib, "le": ia <= ib, "gt": ia > ib, "ge": ia >= ib}[name]
    if is_scalar(a) and is_scalar(b):
        ua, ub = as_u(a), as_u(b)
        if name == "eq":
            return ua == ub
        if name == "ne":
            return ua != ub
        return uop(name, B)(ua, ub)
    if isinstance(a, VStr) and isinstance(b, VStr):
        if name == "eq":
            return a.t == b.t if (a.s is None or b.s is None) else z3.BoolVal(a.s == b.s)
        if name == "ne":
            return a.t != b.t if (a.s is None or b.s is None) else z3.BoolVal(a.s != b.s)
        if a.s is not None and b.s is not None:
            return z3.BoolVal({"lt": a.s < b.s, "le": a.s <= b.s, "gt": a.s > b.s, "ge": a.s >= b.s}[name])
    if isinstance(a, VStr) != isinstance(b, VStr) and name in ("eq", "ne") and not isinstance(a, VU) and not isinstance(b, VU):
        return z3.BoolVal(name == "ne")
    if isinstance(a, VTuple) and isinstance(b, VTuple) and name in ("eq", "ne"):
        if len(a.items) != len(b.items):
            return z3.BoolVal(name == "ne")
        eqs = [prim_compare("eq", x, y) for x, y in zip(a.items, b.items)]
        e = z3.And(eqs) if eqs else z3.BoolVal(True)
        return e if name == "eq" else z3.Not(e)
    if isinstance(a, VTuple) and isinstance(b, VTuple) and name in ("lt", "le", "gt", "ge"):
        # lexicographic order on equal-length tuples
        if len(a.items) != len(b.items):
            raise Unsupported("ordering of tuples of different length")
        if not a.items:
            return z3.BoolVal(name in ("le", "ge"))
        strict = "lt" if name in ("lt", "le") else "gt"
        head = prim_compare(strict, a.items[0], b.items[0])
        heq = prim_compare("eq", a.items[0], b.items[0])
        rest = prim_compare(name, VTuple(a.items[1:]), VTuple(b.items[1:]))
        return z3.Or(head, z3.And(heq, rest))
    if isinstance(a, VTuple) != isinstance(b, VTuple) and name in ("eq", "ne") and is_prim(a) and is_prim(b) \
            and not isinstance(a, VU) and not isinstance(b, VU):
        return z3.BoolVal(name == "ne")
    if isinstance(a, (VObj, VList)) and isinstance(b, (VObj, VList)) and name in ("is", "isnot"):
        return a.t == b.t if name == "is" else a.t != b.t
    raise Unsupported("compare %s on %r, %r" % (name, a, b))


def identity(a, b):
    """`a is b` as a z3 Bool."""
    if isinstance(a, VOpt) and isinstance(b, VOpt):
        return z3.Or(z3.And(a.isnone, b.isnone), z3.And(z3.Not(a.isnone), z3.Not(b.isnone), identity(a.val, b.val)))
    if isinstance(a, VOpt):
        if isinstance(b, VNone):
            return a.isnone
        return z3.And(z3.Not(a.isnone), identity(a.val, b))
    if isinstance(b, VOpt):
        return identity(b, a)
    if isinstance(a, VNone) or isinstance(b, VNone):
        return z3.BoolVal(isinstance(a, VNone) and isinstance(b, VNone))
    if isinstance(a, (VObj, VList)) and isinstance(b, (VObj, VList)):
        return a.t == b.t
    if isinstance(a, VBool) and isinstance(b, VBool):
        return a.t == b.t
    if isinstance(a, VInt) and isinstance(b, VInt):
        return a.t == b.t
    if isinstance(a, VStr) and isinstance(b, VStr):
        return a.t == b.t
    if type(a) is not type(b):
        return z3.BoolVal(False)
    if isinstance(a, VU):
        return a.t == b.t
    raise Unsupported("identity of %r, %r" % (a, b))


def val_eq(a, b):
    """Structural equality of two values of the same shape as a z3 Bool (spec-level ==)."""
    if isinstance(a, VOpt) or isinstance(b, VOpt):
        return identity(a, b) if not (isinstance(a, VOpt) and isinstance(b, VOpt)) else \
            z3.Or(z3.And(a.isnone, b.isnone), z3.And(z3.Not(a.isnone), z3.Not(b.isnone), val_eq(a.val, b.val)))
    if isinstance(a, VTuple) and isinstance(b, VTuple):
        if len(a.items) != len(b.items):
            return z3.BoolVal(False)
        return z3.And([val_eq(x, y) for x, y in zip(a.items, b.items)] + [z3.BoolVal(True)])
    if isinstance(a, (VObj, VList)) and isinstance(b, (VObj, VList)):
        return a.t == b.t
    if isinstance(a, VSeq) and isinstance(b, VSeq):
        k = z3.Int("k!seqeq")
        return z3.And(a.n == b.n, *[z3.ForAll([k], z3.Implies(z3.And(0 <= k, k < a.n), x[k] == y[k]))
                                    for x, y in zip(a.comps, b.comps)])
    return prim_compare("eq", a, b)
