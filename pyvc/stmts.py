"""Symbolic executor: statements, loops (cut by invariants), generators."""
import ast
import z3

from .values import *            # noqa
from .state import *             # noqa
from . import ops, source
from .exec import ExecBase, Ctx, Exc, exc_matches


def assigned_names(stmts):
    """Names (syntactically) assigned in a statement list, not descending into nested defs."""
    out = set()

    def tgt(t):
        if isinstance(t, ast.Name):
            out.add(t.id)
        elif isinstance(t, (ast.Tuple, ast.List)):
            for x in t.elts:
                tgt(x)
        elif isinstance(t, ast.Starred):
            tgt(t.value)

    def walk(ss):
        for s in ss:
            if isinstance(s, (ast.FunctionDef, ast.ClassDef)):
                out.add(s.name)
                continue
            if isinstance(s, ast.Assign):
                for t in s.targets:
                    tgt(t)
            elif isinstance(s, (ast.AugAssign, ast.AnnAssign)):
                tgt(s.target)
            elif isinstance(s, ast.For):
                tgt(s.target)
            elif isinstance(s, ast.With):
                for it in s.items:
                    if it.optional_vars is not None:
                        tgt(it.optional_vars)
            for n in ast.walk(s) if not isinstance(s, (ast.If, ast.For, ast.While, ast.Try, ast.With)) else []:
                if isinstance(n, ast.NamedExpr):
                    tgt(n.target)
            for fld in ("body", "orelse", "finalbody"):
                sub = getattr(s, fld, None)
                if isinstance(sub, list):
                    walk(sub)
            for h in getattr(s, "handlers", []) or []:
                if h.name:
                    out.add(h.name)
                walk(h.body)
    walk(stmts)
    return out


def loops_preorder(fn):
    """For/While nodes of a function in source pre-order, not descending into nested defs/classes."""
    out = []

    def walk(ss):
        for s in ss:
            if isinstance(s, (ast.FunctionDef, ast.ClassDef)):
                continue
            if isinstance(s, (ast.For, ast.While)):
                out.append(s)
            for fld in ("body", "orelse", "finalbody"):
                sub = getattr(s, fld, None)
                if isinstance(sub, list):
                    walk(sub)
            for h in getattr(s, "handlers", []) or []:
                walk(h.body)
    walk(fn.body)
    return out


def yields_preorder(fn):
    out = []

    class Vis(ast.NodeVisitor):
        def visit_FunctionDef(self, n):
            if n is fn:
                self.generic_visit(n)

        def visit_ClassDef(self, n):
            pass

        def visit_Lambda(self, n):
            pass

        def visit_Yield(self, n):
            out.append(n)
            self.generic_visit(n)
    Vis().visit(fn)
    return out


def heap_writes_syntactic(stmts):
    """Does the statement list contain a syntactic heap write or any call?  (attribute/subscript store, del, call)"""
    for s in stmts:
        for n in ast.walk(s):
            if isinstance(n, (ast.Attribute, ast.Subscript)) and isinstance(n.ctx, (ast.Store, ast.Del)):
                return True
            if isinstance(n, ast.Call):
                return True
            if isinstance(n, (ast.Yield, ast.YieldFrom)):
                return True
    return False


class StmtMixin(ExecBase):
    # ------------------------------------------------------------ blocks
    def ex_block(self, stmts, st, ctx, k):
        if not stmts:
            return k(st)
        s = stmts[0]
        m = getattr(self, "ex_" + type(s).__name__, None)
        if m is None:
            raise Unsupported("statement %s at line %d" % (type(s).__name__, s.lineno))
        c = getattr(ctx, "contract", None)
        if self.inline_depth == 0 and getattr(ctx, "qual", None) == getattr(self, "top_qual", None):
            body = getattr(s, "body", None)
            last = (body[0].lineno - 1) if isinstance(body, list) and body else getattr(s, "end_lineno", s.lineno)
            self.live_stmts.add((s.lineno, max(last, s.lineno)))
        lem = None
        if c is not None and c.lemmas and getattr(ctx, "qual", None) == getattr(self, "top_qual", None) and self.inline_depth == 0 \
                and not isinstance(s, (ast.For, ast.While, ast.If, ast.Try, ast.FunctionDef, ast.ClassDef)):
            try:
                txt = ast.unparse(s)
            except Exception:
                txt = ""
            for key, specs in c.lemmas.items():
                if key.startswith("before:"):
                    if key[7:] in txt:
                        self.lemmas_seen.add(key)
                        for j, sp in enumerate(specs):
                            self.oblige(st, "line%d::lemma-before[%s]#%d" % (s.lineno, key[7:37], j), self.spec_bool(sp, st, ctx, {}), s.lineno, kind="lemma")
                elif key in txt:
                    lem = (key, specs)
                    self.lemmas_seen.add(key)

        def after(st1):
            if lem is not None:
                for j, sp in enumerate(lem[1]):
                    self.oblige(st1, "line%d::lemma[%s]#%d" % (s.lineno, lem[0][:30], j), self.spec_bool(sp, st1, ctx, {}), s.lineno, kind="lemma")
            self.ex_block(stmts[1:], st1, ctx, k)
        return m(s, st, ctx, after)

    def ex_Pass(self, s, st, ctx, k):
        k(st)

    def ex_Global(self, s, st, ctx, k):
        k(st)

    def ex_Import(self, s, st, ctx, k):
        k(st)

    def ex_ImportFrom(self, s, st, ctx, k):
        k(st)

    def ex_Expr(self, s, st, ctx, k):
        v = s.value
        if isinstance(v, ast.Constant):
            return k(st)       # docstring
        if isinstance(v, ast.Yield):
            return self.do_yield(v, st, ctx, lambda st1, _v: k(st1))
        if isinstance(v, ast.Call) and isinstance(v.func, ast.Name) and v.func.id == "print":
            self.notes.append("print at line %d dropped" % s.lineno)
            return k(st)
        if isinstance(v, ast.Call) and isinstance(v.func, ast.Attribute) and v.func.attr in ("debug", "info", "warning") \
                and isinstance(v.func.value, (ast.Name, ast.Attribute)) and "logger" in ast.dump(v.func.value):
            self.notes.append("logging call at line %d dropped" % s.lineno)
            return k(st)
        self.ev(v, st, ctx, lambda st1, _v: k(st1))

    def ex_Return(self, s, st, ctx, k):
        if s.value is None:
            return ctx.ret(st, VNone())
        self.ev(s.value, st, ctx, lambda st1, v: ctx.ret(st1, v))

    def ex_Break(self, s, st, ctx, k):
        ctx.brk(st)

    def ex_Continue(self, s, st, ctx, k):
        ctx.cont(st)

    def ex_FunctionDef(self, s, st, ctx, k):
        st.store[s.name] = VFunc("def", node=s, env=dict(st.store), file=getattr(ctx, "file", self.file),
                                 qual=getattr(ctx, "qual", self.qual) + "." + s.name)
        k(st)

    def ex_ClassDef(self, s, st, ctx, k):
        # a class defined inside a function: class-level assignments capture closure values
        attrs = {}

        def go(i, st1):
            if i == len(s.body):
                st1.store[s.name] = VFunc("localclass", node=s, attrs=attrs, file=getattr(ctx, "file", self.file),
                                          qual=getattr(ctx, "qual", self.qual) + "." + s.name)
                return k(st1)
            b = s.body[i]
            if isinstance(b, ast.Assign) and len(b.targets) == 1 and isinstance(b.targets[0], ast.Name):
                return self.ev(b.value, st1, ctx, lambda st2, v: (attrs.__setitem__(b.targets[0].id, v), go(i + 1, st2)))
            if isinstance(b, ast.FunctionDef) or (isinstance(b, ast.Expr) and isinstance(b.value, ast.Constant)):
                return go(i + 1, st1)
            raise Unsupported("class body statement %s" % type(b).__name__)
        go(0, st)

    def ex_Assert(self, s, st, ctx, k):
        def after(st1, v):
            def fail(st2):
                if self.allows(ctx, "AssertionError"):
                    return self.raise_(st2, ctx, "AssertionError", s.lineno)
                # not a declared exceptional exit: the assertion must hold
                self.obligations.append(Obligation(
                    "%s::%s::line%d::assert" % (self.file, self.qual, s.lineno), st2.pc, z3.BoolVal(False),
                    line=s.lineno, kind="assert"))
            self.truth_fork(st1, ctx, v, k, fail)
        self.ev(s.test, st, ctx, after)

    def ex_Raise(self, s, st, ctx, k):
        if s.exc is None:
            raise Unsupported("bare raise")
        e = s.exc
        name = None
        if isinstance(e, ast.Call) and isinstance(e.func, ast.Name):
            name = e.func.id
        elif isinstance(e, ast.Name):
            name = e.id
        if name is None:
            raise Unsupported("raise of a computed exception")
        self.raise_(st, ctx, name, s.lineno)

    def ex_If(self, s, st, ctx, k):
        # `if x is None` / `if x is not None` on a local option: refine the local in the non-None branch
        t = s.test
        refine = None
        if isinstance(t, ast.Compare) and len(t.ops) == 1 and isinstance(t.left, ast.Name) and \
                isinstance(t.comparators[0], ast.Constant) and t.comparators[0].value is None and \
                isinstance(t.ops[0], (ast.Is, ast.IsNot)):
            refine = (t.left.id, isinstance(t.ops[0], ast.IsNot))

        def narrowed(st1, branch_true):
            if refine is not None and refine[0] in st1.store and isinstance(st1.store[refine[0]], VOpt):
                name, nonnone_when_true = refine
                if branch_true == nonnone_when_true:
                    st1.store[name] = st1.store[name].val
                else:
                    st1.store[name] = VNone()
            return st1
        self.ev(s.test, st, ctx, lambda st1, c: self.truth_fork(
            st1, ctx, c, lambda sa: self.ex_block(s.body, narrowed(sa, True), ctx, k),
            lambda sb: self.ex_block(s.orelse, narrowed(sb, False), ctx, k)))

    def ex_Try(self, s, st, ctx, k):
        if s.finalbody:
            raise Unsupported("try/finally")
        caught = []
        for h in s.handlers:
            if h.type is None:
                caught.append("BaseException")
            elif isinstance(h.type, ast.Name):
                caught.append(h.type.id)
            elif isinstance(h.type, ast.Tuple):
                caught += [x.id for x in h.type.elts]
            else:
                raise Unsupported("except clause")

        def on_exc(st1, exc):
            for h in s.handlers:
                names = ["BaseException"] if h.type is None else (
                    [h.type.id] if isinstance(h.type, ast.Name) else [x.id for x in h.type.elts])
                if any(exc_matches(exc.name, n) for n in names):
                    return self.ex_block(h.body, st1, ctx, k)
            ctx.exc(st1, exc)
        inner = ctx.with_(exc=on_exc, catching=tuple(getattr(ctx, "catching", ())) + tuple(caught))
        self.ex_block(s.body, st, inner, lambda st1: self.ex_block(s.orelse, st1, ctx, k))

    def ex_Delete(self, s, st, ctx, k):
        if len(s.targets) != 1 or not isinstance(s.targets[0], ast.Subscript):
            raise Unsupported("del of a non-subscript")
        t = s.targets[0]

        def go(st1, o, i):
            if not isinstance(o, VList):
                raise Unsupported("del on %r" % (o,))
            n = list_len(st1, o)
            it = self.norm_index(st1, ops.to_int(i), n)
            self.oblige(st1, "line%d::del-index-in-range" % s.lineno, z3.And(0 <= it, it < n), s.lineno)
            self.list_write_check(st1, o, s.lineno)
            list_delete(st1, o, it)
            k(st1)
        self.ev(t.value, st, ctx, lambda st1, o: self.ev(t.slice, st1, ctx, lambda st2, i: go(st2, o, i)))

    # ------------------------------------------------------------ assignment
    def ex_Assign(self, s, st, ctx, k):
        def after(st1, v):
            def go(i, st2):
                if i == len(s.targets):
                    return k(st2)
                self.assign(s.targets[i], v, st2, ctx, lambda st3: go(i + 1, st3), s)
            go(0, st1)
        self.ev(s.value, st, ctx, after)

    def ex_AnnAssign(self, s, st, ctx, k):
        if s.value is None:
            return k(st)
        self.ev(s.value, st, ctx, lambda st1, v: self.assign(s.target, v, st1, ctx, k, s))

    def assign(self, t, v, st, ctx, k, node):
        if isinstance(t, ast.Name):
            c = getattr(ctx, "contract", None)
            if c is not None and c.narrow and t.id in c.narrow and self.inline_depth == 0 and isinstance(v, VObj) and len(v.classes) > 1 \
                    and c.narrow[t.id] in v.classes and getattr(ctx, "qual", None) == getattr(self, "top_qual", None):
                cls = c.narrow[t.id]
                line = getattr(node, "lineno", None)
                self.oblige(st, "line%s::narrow[%s:%s]" % (line, t.id, cls), cls_of(v.t) == class_tag(cls), line, kind="assertion")
                v = VObj((cls,), v.t)
            st.store[t.id] = v
            if getattr(st, "unbound_when", None) and t.id in st.unbound_when:
                st.unbound_when = {a: b for a, b in st.unbound_when.items() if a != t.id}
            return k(st)
        if isinstance(t, (ast.Tuple, ast.List)):
            n = len(t.elts)
            if any(isinstance(x, ast.Starred) for x in t.elts):
                raise Unsupported("starred assignment target")

            def got(st1, items):
                def go(i, st2):
                    if i == n:
                        return k(st2)
                    self.assign(t.elts[i], items[i], st2, ctx, lambda st3: go(i + 1, st3), node)
                go(0, st1)
            return self.unpack(st, ctx, v, n, node, got)
        if isinstance(t, ast.Attribute):
            return self.ev(t.value, st, ctx, lambda st1, o: self.setattr(st1, ctx, o, t.attr, v, k, node))
        if isinstance(t, ast.Subscript):
            def got(st1, o, i):
                self.setitem(st1, ctx, o, i, v, k, node)
            return self.ev(t.value, st, ctx, lambda st1, o: self.ev(t.slice, st1, ctx, lambda st2, i: got(st2, o, i)))
        raise Unsupported("assignment target %s" % type(t).__name__)

    def unpack(self, st, ctx, v, n, node, k):
        """Unpack v into n items (n None: any number)."""
        line = getattr(node, "lineno", None)
        if isinstance(v, VTuple):
            if n is not None and len(v.items) != n:
                return self.raise_(st, ctx, "ValueError", line)
            return k(st, list(v.items))
        if isinstance(v, VOpt):
            return self.unwrap(st, ctx, v, node, lambda s, x: self.unpack(s, ctx, x, n, node, k))
        if isinstance(v, VObj):
            # iterate a user object with a loop-free generator __iter__ (CoordPayload)
            def per_class(st1, cls):
                m = source.find_method(cls, "__iter__")
                if m is None:
                    return self.raise_(st1, ctx, "TypeError", line)
                self.run_generator_inline(st1, ctx, VObj((cls,), v.t), m, lambda st2, items: (
                    k(st2, items) if n is None or len(items) == n else self.raise_(st2, ctx, "ValueError", line)))
            return self.for_classes(st, v, per_class)
        if isinstance(v, VList) and n is not None:
            ln = list_len(st, v)
            return self.branch(st, ln == n, lambda s: k(s, [list_get(s, v, z3.IntVal(i)) for i in range(n)]),
                               lambda s: self.raise_(s, ctx, "ValueError", line))
        raise Unsupported("unpacking of %r (line %s)" % (v, line))

    def run_generator_inline(self, st, ctx, obj, m, k):
        """Run a loop-free generator method to completion, collecting its yields."""
        f, qual, node, decos = m
        items = []
        for n in ast.walk(node):
            if isinstance(n, (ast.For, ast.While)):
                raise Unsupported("inline iteration of a looping generator %s" % qual)
        st.frames = st.frames + [st.store]
        st.store = {"self": obj}

        def fin(st1, _v=None):
            st1.store = st1.frames[-1]
            st1.frames = st1.frames[:-1]
            k(st1, list(items))
        inner = Ctx(ret=fin, brk=None, cont=None, exc=ctx.exc, file=f, qual=qual, yield_sink=items,
                    catching=getattr(ctx, "catching", ()), allowed_raises=getattr(ctx, "allowed_raises", ()))
        self.ex_block(node.body, st, inner, fin)

    def setattr(self, st, ctx, o, attr, v, k, node):
        line = getattr(node, "lineno", None)
        if isinstance(o, VOpt):
            return self.unwrap(st, ctx, o, node, lambda s, x: self.setattr(s, ctx, x, attr, v, k, node))
        if isinstance(o, VObj):
            def per_class(st1, cls):
                o1 = VObj((cls,), o.t)
                if source.find_method(cls, "__setattr__"):
                    return self.call_method(st1, ctx, o1, "__setattr__", [VStr(attr), v], {}, lambda s, _r: k(s), node)
                dc, fty = field_decl(cls, attr)
                if isinstance(v, VOpt) and fty is not None and fty.k != "opt":
                    def none_case(s_):
                        raise Unsupported("None may be stored into non-optional field %s.%s (line %s)" % (cls, attr, line))
                    return self.branch(st1, v.isnone, none_case, lambda s_: (store_field(s_, o.t, cls, attr, v.val), k(s_)))
                store_field(st1, o.t, cls, attr, v)
                k(st1)
            return self.for_classes(st, o, per_class)
        if isinstance(o, VFunc) and o.kind == "class":
            store_field(st, self.class_ref(o.name), o.name, attr, v)
            return k(st)
        raise Unsupported("attribute store on %r (line %s)" % (o, line))

    def setitem(self, st, ctx, o, i, v, k, node):
        line = getattr(node, "lineno", None)
        if isinstance(o, VList):
            n = list_len(st, o)
            it = self.norm_index(st, ops.to_int(i), n)
            if self.allows(ctx, "IndexError"):
                # Python's rule exactly: -n <= i < 0 addresses n + i, anything outside [-n, n) raises
                def store_at(s_, idx):
                    self.adopt_elem(o, v)
                    self.list_write_check(s_, o, line)
                    list_store(s_, o, idx, v)
                    return k(s_)
                return self.branch(st, z3.And(0 <= it, it < n), lambda s_: store_at(s_, it),
                                   lambda s_: self.branch(s_, z3.And(-n <= it, it < 0), lambda s2: store_at(s2, n + it),
                                                          lambda s2: self.raise_(s2, ctx, "IndexError", line)))
            self.oblige(st, "line%s::store-index-in-range" % line, z3.And(0 <= it, it < n), line)
            self.adopt_elem(o, v)
            self.list_write_check(st, o, line)
            list_store(st, o, it, v)
            return k(st)
        if isinstance(o, VMap) and isinstance(i, VStr):
            if isinstance(v, (VDict,)) and not v.d or (isinstance(v, VList) and False):
                map_new_row(st, o, i.t)
                return k(st)
            raise Unsupported("assignment of a non-empty row to a record map")
        if isinstance(o, VRow) and isinstance(i, VStr) and i.s is not None:
            map_set(st, o, i.s, v)
            return k(st)
        if isinstance(o, VFunc) and o.kind == "rawdict":
            if not (isinstance(i, VStr) and i.s is not None):
                raise Unsupported("__dict__ store with a symbolic key")
            def per_class(st1, cls):
                dc, fty = field_decl(cls, i.s)
                if isinstance(v, VOpt) and fty is not None and fty.k != "opt":
                    def none_case(s_):
                        raise Unsupported("None may be stored into non-optional field %s.%s (line %s)" % (cls, i.s, line))
                    return self.branch(st1, v.isnone, none_case, lambda s_: (store_field(s_, o.obj.t, cls, i.s, v.val), k(s_)))
                store_field(st1, o.obj.t, cls, i.s, v)
                k(st1)
            return self.for_classes(st, o.obj, per_class)
        if isinstance(o, VObj):
            return self.call_method(st, ctx, o, "__setitem__", [i, v], {}, lambda s, _r: k(s), node)
        raise Unsupported("subscript store on %r (line %s)" % (o, line))

    def adopt_elem(self, lst, v):
        if lst.elem is None:
            lst.elem = ty_of(v)

    def list_write_check(self, st, lst, line):
        """Stability of abstract iterators: a list that a live iterator reads must not be written."""
        for it_name, lids in st.live_iters:
            for lid in lids:
                self.oblige(st, "line%s::iterator-stability(%s)" % (line, it_name), lst.t != lid, line, kind="frame")

    def ex_AugAssign(self, s, st, ctx, k):
        name = ops.BINOP_NAMES.get(type(s.op))
        t = s.target

        def combine(st1, cur, rhs, store):
            # in-place protocol: __iop__ if defined, else the binary operator; the result is rebound
            if isinstance(cur, VObj):
                iname = "__i%s__" % name

                def per_class(st2, cls):
                    c1 = VObj((cls,), cur.t)
                    if source.find_method(cls, iname):
                        return self.call_method(st2, ctx, c1, iname, [rhs], {}, lambda s3, r: store(s3, r), s)
                    return self.binop(st2, ctx, name, c1, rhs, lambda s3, r: store(s3, r), s)
                return self.for_classes(st1, cur, per_class)
            if isinstance(cur, VList) and name == "add":
                raise Unsupported("list += ")
            self.binop(st1, ctx, name, cur, rhs, lambda s3, r: store(s3, r), s)

        if isinstance(t, ast.Name):
            def go(st1, rhs):
                if t.id not in st1.store:
                    raise Unsupported("augmented assignment to unbound %s" % t.id)
                combine(st1, st1.store[t.id], rhs, lambda s2, r: (s2.store.__setitem__(t.id, r), k(s2)))
            return self.ev(s.value, st, ctx, go)
        if isinstance(t, ast.Attribute):
            def go(st1, o):
                self.getattr(st1, ctx, o, t.attr, lambda st2, cur: self.ev(s.value, st2, ctx, lambda st3, rhs: combine(
                    st3, cur, rhs, lambda s4, r: self.setattr(s4, ctx, o, t.attr, r, k, s))), t)
            return self.ev(t.value, st, ctx, go)
        if isinstance(t, ast.Subscript):
            def go(st1, o, i):
                self.index(st1, ctx, o, i, lambda st2, cur: self.ev(s.value, st2, ctx, lambda st3, rhs: combine(
                    st3, cur, rhs, lambda s4, r: self.setitem(s4, ctx, o, i, r, k, s))), t)
            return self.ev(t.value, st, ctx, lambda st1, o: self.ev(t.slice, st1, ctx, lambda st2, i: go(st2, o, i)))
        raise Unsupported("augmented assignment target")

    # ------------------------------------------------------------ yield
    def do_yield(self, y, st, ctx, k):
        def after(st1, v):
            sink = getattr(ctx, "yield_sink", None)
            if sink is not None:     # inline run of a tiny generator
                sink.append(v)
                return k(st1, VNone())
            if st1.out is None:
                raise Unsupported("yield outside a generator under contract")
            ys = getattr(ctx, "yield_nodes", [])
            ordinal = ys.index(y) if y in ys else -1
            elem = st1.out.elem
            c = getattr(ctx, "contract", None)
            if c is not None and c.yields and c.yields.get("abstract"):
                # the ghost output records an abstraction of the yielded object (e.g. (coord, payload) of a CoordPayload)
                v = self.spec_val(c.yields["abstract"], st1, ctx, {"yielded": v})
            v = self.strip_opts(st1, v, elem, y.lineno)
            if not fits(v, elem):
                raise Unsupported("yielded value %r does not fit declared element type %r (line %d)" % (v, elem, y.lineno))
            st1.out = seq_append(st1.out, v)
            self.after_yield(st1, ctx, ordinal, v, y, lambda st2: k(st2, VNone()))
        if y.value is None:
            return after(st, VNone())
        self.ev(y.value, st, ctx, after)

    def strip_opts(self, st, v, ty, line):
        """Where a non-option is declared and an option is supplied: prove it is not None and use its value."""
        if isinstance(v, VOpt) and ty.k != "opt":
            self.oblige(st, "line%s::value-not-None" % line, z3.Not(v.isnone), line)
            return self.strip_opts(st, v.val, ty, line)
        if isinstance(v, VTuple) and ty.k == "tuple" and len(v.items) == len(ty.a):
            return VTuple([self.strip_opts(st, x, a, line) for x, a in zip(v.items, ty.a)])
        return v

    def after_yield(self, st, ctx, ordinal, v, node, k):
        k(st)

    # ------------------------------------------------------------ loops
    def loop_spec(self, ctx, node):
        loops = getattr(ctx, "loop_nodes", [])
        if node not in loops:
            return None, None
        i = loops.index(node)
        c = getattr(ctx, "contract", None)
        if c is None:
            return i, None
        return i, c.loops.get(i)

    def havoc_for_loop(self, st, ctx, body, spec, ordinal, extra_names=()):
        """Havoc everything the loop body may change: assigned locals keep their kind (or declared type)."""
        names = assigned_names(body) | set(extra_names)
        types = {k: parse_ty(v) for k, v in (spec.get("types", {}) if spec else {}).items()}
        for n in sorted(names):
            if n in types:
                st.store[n] = fresh_value(st, types[n], n)
            elif n in st.store:
                cur = st.store[n]
                if isinstance(cur, VFunc):
                    continue
                if isinstance(cur, VIter):
                    continue   # cursor cells are havocked below
                try:
                    st.store[n] = fresh_value(st, ty_of(cur), n)
                except Unsupported:
                    raise Unsupported("loop %d: cannot havoc local %r; declare its type" % (ordinal, n))
            # unbound before the loop and undeclared: stays unbound (must be assigned before use)
        # iterator cursors advance inside loops
        for cell in list(st.cells):
            if cell != "alloc":
                st.cells[cell] = z3.Int(fresh_name(cell))
        a0 = st.cells["alloc"]
        a1 = z3.Int(fresh_name("alloc"))
        st.assume(a1 >= a0)
        st.cells["alloc"] = a1
        if st.out is not None:
            n0 = st.out.n
            st.out = fresh_seq(st.out.elem, "out")
            st.assume(st.out.n >= n0)
        # heap: only the locations named by the loop's modifies clause are havocked (default: none);
        # the body's frame is checked on the back edge against the loop-entry heap.
        mods = (spec.get("modifies") if spec else None) or []
        return self.havoc_locs(st, ctx, mods)

    def havoc_all_heap(self, st):
        for key in list(st.heap):
            st.heap[key] = z3.Const(fresh_name("H!" + key), st.heap[key].sort())
        st.heap_epoch = fresh_name("epoch")

    def coerce_loop_locals(self, st, spec):
        """Give locals with a declared loop type that representation (e.g. None -> opt[int]) before the entry check."""
        for n, ty in (spec.get("types", {}) if spec else {}).items():
            ty = parse_ty(ty)
            if n in st.store and fits(st.store[n], ty):
                st.store[n] = coerce(st.store[n], ty)

    def check_invariants(self, st, ctx, spec, ordinal, phase, line, env_extra):
        self.coerce_loop_locals(st, spec)
        for j, inv in enumerate(spec.get("invariant", [])):
            t = self.spec_bool(inv, st, ctx, env_extra)
            self.oblige(st, "loop[%d]::%s::inv#%d" % (ordinal, phase, j), t, line, kind="invariant")

    def assume_invariants(self, st, ctx, spec, env_extra):
        for inv in spec.get("invariant", []):
            st.assume(self.spec_bool(inv, st, ctx, env_extra))

    def ex_While(self, s, st, ctx, k):
        if s.orelse:
            raise Unsupported("while/else")
        ordinal, spec = self.loop_spec(ctx, s)
        if spec is None:
            raise StaleContract("%s::%s: while loop (ordinal %s, line %d) has no invariant" % (self.file, self.qual, ordinal, s.lineno))
        self.coerce_loop_locals(st, spec)
        self.check_invariants(st, ctx, spec, ordinal, "entry", s.lineno, {})
        self.join_loop(s, None, st, ctx, k, lambda st_, k_: self.run_while(s, st_, ctx, k_, ordinal, spec))

    def run_while(self, s, st, ctx, k, ordinal, spec):
        entry = st.fork()
        head = st.fork()
        locs = self.havoc_for_loop(head, ctx, s.body + [ast.Expr(value=s.test)], spec, ordinal)
        self.assume_invariants(head, ctx, spec, {})
        dec0 = None
        if "decreases" in spec:
            dec0 = self.spec_val(spec["decreases"], head, ctx, {}).t
        self.covers.append(("loop[%d]::head" % ordinal, list(head.pc)))

        def body_done(st2):
            self.check_invariants(st2, ctx, spec, ordinal, "preserve@%d" % s.lineno, s.lineno, {})
            self.frame_obligations(st2, entry, locs, "loop[%d]::body" % ordinal, s.lineno)
            if dec0 is not None:
                d1 = self.spec_val(spec["decreases"], st2, ctx, {}).t
                self.oblige(st2, "loop[%d]::decreases" % ordinal, z3.And(d1 < dec0, dec0 >= 0), s.lineno, kind="variant")
            self.paths += 1

        inner = ctx.with_(brk=k, cont=body_done)
        self.ev(s.test, head, ctx, lambda st1, c: self.truth_fork(
            st1, ctx, c, lambda sa: self.ex_block(s.body, sa, inner, body_done), lambda sb: k(sb)))

    def iter_source(self, st, ctx, v, node):
        """Describe an iterable: (count term, elem(st, i) -> V, advance(st, i) or None, elem type)."""
        if isinstance(v, VFunc) and v.kind == "range":
            lo, hi, step = v.lo, v.hi, v.step
            sstep = z3.simplify(step)
            if z3.is_int_value(sstep) and sstep.as_long() == 1:
                cnt = z3.If(hi > lo, hi - lo, 0)
            elif z3.is_int_value(sstep) and sstep.as_long() == -1:
                cnt = z3.If(lo > hi, lo - hi, 0)
            else:
                # ceil((hi-lo)/step) for positive step
                self.oblige(st, "line%d::range-step-positive" % node.lineno, step > 0, node.lineno)
                cnt = z3.If(hi > lo, (hi - lo + step - 1) / step, 0)
            return cnt, (lambda s, i: VInt(lo + i * step)), None, Ty("int")
        if isinstance(v, VList):
            seq = list_as_seq(st, v)
            lid = v.t
            return seq.n, (lambda s, i: list_get(s, v, i)), None, v.elem
        if isinstance(v, VSeq):
            return v.n, (lambda s, i: seq_get(v, i)), None, v.elem
        if isinstance(v, VTuple):
            return None, v.items, None, None
        if isinstance(v, VIter):
            c0 = st.cells[v.cell]

            def adv(s, i):
                s.cells[v.cell] = c0 + i + 1
            return v.seq.n - c0, (lambda s, i: seq_get(v.seq, c0 + i)), adv, v.seq.elem
        if isinstance(v, VFunc) and v.kind == "enumerate":
            cnt, el, adv, ety = self.iter_source(st, ctx, v.inner, node)
            if cnt is None:
                return None, [VTuple([VInt(i), x]) for i, x in enumerate(el)], None, None
            return cnt, (lambda s, i: VTuple([VInt(i + v.start), el(s, i)])), adv, Ty("tuple", Ty("int"), ety)
        if isinstance(v, VFunc) and v.kind == "zip":
            srcs = [self.iter_source(st, ctx, x, node) for x in v.inners]
            if any(c is None for c, _, _, _ in srcs):
                raise Unsupported("zip over a tuple")
            cnt = srcs[0][0]
            for c, _, _, _ in srcs[1:]:
                cnt = z3.If(c < cnt, c, cnt)

            def adv(s, i):
                for _, _, a, _ in srcs:
                    if a:
                        a(s, i)
            return cnt, (lambda s, i: VTuple([el(s, i) for _, el, _, _ in srcs])), adv, Ty("tuple", *[t for _, _, _, t in srcs])
        if isinstance(v, VFunc) and v.kind == "reversed":
            cnt, el, adv, ety = self.iter_source(st, ctx, v.inner, node)
            if cnt is None:
                return None, list(reversed(el)), None, None
            if adv is not None:
                raise Unsupported("reversed() of an iterator")
            return cnt, (lambda s, i: el(s, cnt - 1 - i)), None, ety
        raise Unsupported("iteration over %r (line %d)" % (v, node.lineno))

    def ex_For(self, s, st, ctx, k):
        if s.orelse:
            raise Unsupported("for/else")
        for_info = []

        def got_iter(st1, itv):
            if isinstance(itv, VObj):
                # user iterable: obtain its iterator through the __iter__ contract
                return self.call_method(st1, ctx, itv, "__iter__", [], {}, lambda s2, r: got_iter(s2, r), s)
            cnt, el, adv, ety = self.iter_source(st1, ctx, itv, s)
            ordinal, spec = self.loop_spec(ctx, s)
            for_info[:] = [(itv, (cnt, el, adv, ety), ordinal, spec, "_i%d" % (ordinal if ordinal is not None else -1))]
            if isinstance(itv, VIter) and ordinal is not None:
                st1.store["_it%d" % ordinal] = itv       # the implicit iterator of `for x in obj:` can be named in invariants / postconditions
            if cnt is None:
                return self.unroll_for(s, st1, ctx, el, k)
            scnt = z3.simplify(cnt)
            if spec is None and z3.is_int_value(scnt) and scnt.as_long() <= 8:
                return self.unroll_for(s, st1, ctx, [el(st1, z3.IntVal(i)) for i in range(scnt.as_long())], k)
            if spec is None:
                raise StaleContract("%s::%s: for loop (ordinal %s, line %d) has no invariant" % (self.file, self.qual, ordinal, s.lineno))
            iv = "_i%d" % ordinal
            self.coerce_loop_locals(st1, spec)
            self.check_invariants(st1, ctx, spec, ordinal, "entry", s.lineno, {iv: VInt(0), "_n%d" % ordinal: VInt(cnt)})
            sig = (z3.simplify(cnt).sexpr(), type(itv).__name__)      # (not the id: z3 recycles the ids of freed terms)
            self.join_loop(s, sig, st1, ctx, k, lambda st_, k_: run_for(st_, k_))

        def run_for(st1, k):
            itv, (cnt, el, adv, ety), ordinal, spec, iv = for_info[0]
            entry = st1.fork()
            head = st1.fork()
            locs = self.havoc_for_loop(head, ctx, s.body, spec, ordinal, assigned_names([ast.Assign(targets=[s.target], value=ast.Constant(value=None))]))
            i = z3.Int(fresh_name(iv))
            # the iterable's own description must be re-derived after a heap havoc: it was fixed at loop entry
            head.assume(z3.And(0 <= i, i <= cnt))
            env = {iv: VInt(i), "_n%d" % ordinal: VInt(cnt)}
            self.assume_invariants(head, ctx, spec, env)
            self.covers.append(("loop[%d]::head" % ordinal, list(head.pc)))

            def body_done(st3):
                env2 = {iv: VInt(i + 1), "_n%d" % ordinal: VInt(cnt)}
                self.check_invariants(st3, ctx, spec, ordinal, "preserve@%d" % s.lineno, s.lineno, env2)
                self.frame_obligations(st3, entry, locs, "loop[%d]::body" % ordinal, s.lineno)
                self.paths += 1

            def exit_normal(sb):
                if adv:
                    adv(sb, cnt - 1)
                sb.store[iv] = VInt(cnt)
                k(sb)

            def on_break(sb):
                k(sb)

            def iterate(sa):
                x = el(sa, i)
                if adv:
                    adv(sa, i)
                sa.store[iv] = VInt(i)
                inner = ctx.with_(brk=on_break, cont=body_done)
                self.assign(s.target, x, sa, ctx, lambda s3: self.ex_block(s.body, s3, inner, body_done), s)
            self.branch(head, i < cnt, iterate, exit_normal)
        self.ev(s.iter, st, ctx, got_iter)

    # ------------------------------------------------------------ joining paths at loop heads
    def join_loop(self, node, sig, st, ctx, k, runner):
        """Paths that reach the same top-level loop are joined: the loop is verified once from the facts common to all
        of them (dropping path-specific facts only weakens the hypotheses)."""
        if self.inline_depth > 0 or getattr(ctx, "qual", None) != getattr(self, "top_qual", None) or getattr(ctx, "catching", ()):
            return runner(st, k)
        key = (id(node), sig)
        ent = self.pending_loops.setdefault(key, dict(node=node, entries=[], runner=runner, k=k, ctx=ctx))
        ent["entries"].append(st)

    def drain_loops(self):
        while self.pending_loops:
            key = min(self.pending_loops, key=lambda kk: (self.pending_loops[kk]["node"].lineno, str(kk[1])))
            ent = self.pending_loops.pop(key)
            merged = self.merge_states(ent["entries"], ent["node"], ent["ctx"])
            ent["runner"](merged, ent["k"])

    def merge_states(self, sts, node, ctx):
        if len(sts) == 1:
            return sts[0]
        from .spec import ite_val
        from .exec import has_quant
        m = sts[0].fork()
        sel = z3.Int(fresh_name("path"))

        def ite_terms(ts):
            r = ts[-1]
            for i in range(len(ts) - 2, -1, -1):
                r = z3.If(sel == i, ts[i], r)
            return r
        # path condition: the facts common to every path; quantifier-free path-specific facts stay, guarded by the selector
        common = None
        for s_ in sts:
            ids = {t.get_id() for t in s_.pc}
            common = ids if common is None else (common & ids)
        m.pc = [t for t in sts[0].pc if t.get_id() in common]
        m.pc.append(z3.And(0 <= sel, sel < len(sts)))
        for i, s_ in enumerate(sts):
            for t in s_.pc:
                if t.get_id() not in common and not has_quant(t):
                    m.pc.append(z3.Implies(sel == i, t))
        ordinal, spec = self.loop_spec(ctx, node)
        types = {n: parse_ty(t) for n, t in (spec.get("types", {}) if spec else {}).items()}
        # store: same value kept; same shape -> selector ite; otherwise fresh of the declared/joined type
        names = set(sts[0].store)
        for s_ in sts[1:]:
            names &= set(s_.store)
        newstore = {}
        for n in names:
            vals = [s_.store[n] for s_ in sts]
            if all(self.same_value(vals[0], v) for v in vals[1:]):
                newstore[n] = vals[0]
                continue
            try:
                ty = types[n] if n in types else self.join_types([ty_of(v) for v in vals])
                cv = [coerce(v, ty) for v in vals]
                r = cv[-1]
                for i in range(len(cv) - 2, -1, -1):
                    r = ite_val(sel == i, cv[i], r)
                newstore[n] = r
            except (Unsupported, AttributeError, KeyError, TypeError):
                try:
                    newstore[n] = fresh_value(m, types[n], n) if n in types else None
                except Unsupported:
                    newstore[n] = None
                if newstore[n] is None:
                    del newstore[n]     # differently shaped on different paths: unbound after the join
        # names bound on some of the joined paths only stay usable on those paths (reading them elsewhere raises)
        ub = {}
        allnames = set()
        for s_ in sts:
            allnames |= set(s_.store)
        for n in allnames - names:
            have = [i for i, s_ in enumerate(sts) if n in s_.store]
            try:
                ty = types[n] if n in types else self.join_types([ty_of(sts[i].store[n]) for i in have])
                filler = fresh_value(m, ty, n)
                cv = [coerce(sts[i].store[n], ty) if i in have else filler for i in range(len(sts))]
                r = cv[-1]
                for i in range(len(cv) - 2, -1, -1):
                    r = ite_val(sel == i, cv[i], r)
                newstore[n] = r
                ub[n] = z3.Or([sel == i for i in range(len(sts)) if i not in have])
            except (Unsupported, AttributeError, KeyError, TypeError):
                pass
        for n in names:
            conds = [getattr(s_, "unbound_when", {}).get(n) for s_ in sts]
            if n in newstore and any(c is not None for c in conds):
                ub[n] = z3.Or([z3.And(sel == i, c) for i, c in enumerate(conds) if c is not None])
        m.unbound_when = ub
        m.store = newstore
        # heap, cells, ghost output: exact selector-guarded merge
        keys = set()
        for s_ in sts:
            keys |= set(s_.heap)
        for key in keys:
            srt = next(s_.heap[key] for s_ in sts if key in s_.heap).sort()
            arrs = [s_.heap.get(key) if key in s_.heap else z3.Const("H0!" + key, srt) for s_ in sts]
            m.heap[key] = arrs[0] if all(arrs[0].eq(a) for a in arrs[1:]) else ite_terms(arrs)
        for cell in set().union(*[set(s_.cells) for s_ in sts]):
            vals = [s_.cells.get(cell) for s_ in sts]
            if any(v is None for v in vals):
                m.cells.pop(cell, None)
                continue
            m.cells[cell] = vals[0] if all(vals[0].eq(v) for v in vals[1:]) else ite_terms(vals)
        if sts[0].out is not None:
            outs = [s_.out for s_ in sts]
            if not all(o.n.eq(outs[0].n) and all(x.eq(y) for x, y in zip(o.comps, outs[0].comps)) for o in outs[1:]):
                m.out = VSeq(outs[0].elem, ite_terms([o.n for o in outs]),
                             [ite_terms([o.comps[j] for o in outs]) for j in range(len(outs[0].comps))])
        return m

    def same_value(self, a, b):
        if a is b:
            return True
        if type(a) is not type(b):
            return False
        if isinstance(a, (VInt, VBool, VU)):
            return a.t.eq(b.t)
        if isinstance(a, VObj):
            return a.classes == b.classes and a.t.eq(b.t)
        if isinstance(a, VList):
            return a.t.eq(b.t)
        if isinstance(a, VStr):
            return a.t.eq(b.t)
        if isinstance(a, VNone):
            return True
        if isinstance(a, VOpt):
            return a.isnone.eq(b.isnone) and self.same_value(a.val, b.val)
        if isinstance(a, VTuple):
            return len(a.items) == len(b.items) and all(self.same_value(x, y) for x, y in zip(a.items, b.items))
        if isinstance(a, VIter):
            return a.cell == b.cell
        if isinstance(a, VFunc):
            return a.kind == b.kind and getattr(a, "node", None) is getattr(b, "node", None) and getattr(a, "name", None) == getattr(b, "name", None)
        return False

    def unroll_for(self, s, st, ctx, items, k):
        def go(j, st1):
            if j == len(items):
                return k(st1)
            inner = ctx.with_(brk=k, cont=lambda s2: go(j + 1, s2))
            self.assign(s.target, items[j], st1, ctx, lambda s2: self.ex_block(s.body, s2, inner, lambda s3: go(j + 1, s3)), s)
        go(0, st)
