"""Symbolic state: store, heap (one z3 array per flattened field component), lists, allocation."""
import z3

from .values import (I, B, USort, StrSort, Ty, V, VInt, VBool, VNone, VStr, VU, VObj, VList, VTuple, VOpt, VSeq,
                     VIter, VMap, VRow, VKeys, Unsupported, comp_sorts, to_terms, from_terms, fresh_terms, fresh_name, coerce,
                     class_tag, cls_of)
from .contracts import FIELDS
from . import source


class Obligation:
    def __init__(self, name, hyps, goal, line=None, kind="assert", prop=""):
        self.name = name
        self.hyps = list(hyps)
        self.goal = goal
        self.line = line
        self.kind = kind
        self.prop = prop
        self.status = None
        self.backend = None
        self.time = 0.0
        self.detail = ""


class State:
    def __init__(self):
        self.store = {}
        self.heap = {}
        self.pc = []
        self.cells = {}
        self.out = None        # ghost output of a generator under verification
        self.labels = {}       # 'old' -> State snapshot
        self.live_iters = []   # abstract iterators with the list ids they read (stability obligations)
        self.frames = []       # caller stores of inlined calls

    def fork(self):
        s = State()
        s.store = dict(self.store)
        s.heap = dict(self.heap)
        s.pc = list(self.pc)
        s.cells = dict(self.cells)
        s.out = self.out
        s.labels = self.labels
        s.live_iters = list(self.live_iters)
        s.frames = list(self.frames)
        s.unbound_when = dict(getattr(self, "unbound_when", {}))
        return s

    def assume(self, t):
        if z3.is_true(t):
            return
        if z3.is_and(t):          # keep conjuncts separate: quantifier-free ones serve path pruning
            for c in t.children():
                self.assume(c)
            return
        self.pc.append(t)


def sort_key(s):
    return str(s).replace(" ", "")


# ------------------------------------------------------------------ heap arrays
def harr(st, key, sort):
    a = st.heap.get(key)
    if a is None:
        a = z3.Const("H0!" + key, z3.ArraySort(I, sort))
        st.heap[key] = a
    return a


def field_decl(cls, fname):
    """Find declaring class and type of a field, walking base classes."""
    c = cls
    seen = set()
    cs = source.classes()
    while c not in seen:
        seen.add(c)
        k = c + "." + fname
        if k in FIELDS:
            return c, FIELDS[k]
        if c in cs and cs[c].bases:
            c = cs[c].bases[0]
        else:
            break
    return None, None


def load_field(st, objt, cls, fname):
    dc, ty = field_decl(cls, fname)
    if ty is None:
        raise Unsupported("undeclared field %s.%s" % (cls, fname))
    if ty.k == "map":
        return VMap(dc + "." + fname)
    ts = []
    for i, s in enumerate(comp_sorts(ty)):
        ts.append(z3.Select(harr(st, "%s.%s#%d" % (dc, fname, i), s), objt))
    v = from_terms(ts, ty)
    assume_alloc(st, v, ty)
    return v


def store_field(st, objt, cls, fname, v):
    dc, ty = field_decl(cls, fname)
    if ty is None:
        raise Unsupported("undeclared field %s.%s" % (cls, fname))
    from .values import fits
    if not fits(v, ty):
        raise Unsupported("value %r does not fit field %s.%s : %r" % (v, cls, fname, ty))
    v = coerce(v, ty)
    for i, (s, t) in enumerate(zip(comp_sorts(ty), to_terms(v, ty))):
        key = "%s.%s#%d" % (dc, fname, i)
        st.heap[key] = z3.Store(harr(st, key, s), objt, t)


def field_keys(cls, fname):
    dc, ty = field_decl(cls, fname)
    if ty is None:
        raise Unsupported("undeclared field %s.%s" % (cls, fname))
    return [("%s.%s#%d" % (dc, fname, i), s) for i, s in enumerate(comp_sorts(ty))]


def alloc_facts(st, v, ty):
    """Well-typed heap: every reference read from the heap is allocated and has its declared class."""
    al = st.cells["alloc"]
    fs = []
    if isinstance(v, VObj):
        fs.append(z3.And(v.t >= 1, v.t < al))
        if len(v.classes) == 1:
            fs.append(cls_of(v.t) == class_tag(v.classes[0]))
        else:
            fs.append(z3.Or([cls_of(v.t) == class_tag(c) for c in v.classes]))
    elif isinstance(v, VList):
        fs.append(z3.And(v.t >= 1, v.t < al))
        fs.append(list_len(st, v) >= 0)
    elif isinstance(v, VOpt):
        for f in alloc_facts(st, v.val, ty.a[0] if ty is not None and ty.k == "opt" else None):
            fs.append(z3.Implies(z3.Not(v.isnone), f))
    elif isinstance(v, VTuple):
        for i, x in enumerate(v.items):
            fs += alloc_facts(st, x, ty.a[i] if ty is not None and ty.k == "tuple" else None)
    return fs


def assume_alloc(st, v, ty=None):
    for f in alloc_facts(st, v, ty):
        st.assume(f)


def alloc(st, n=1):
    """Allocate a fresh reference (objects and lists share the allocator)."""
    a = st.cells["alloc"]
    st.cells["alloc"] = a + 1
    return a


def new_obj(st, cls):
    r = alloc(st)
    r = z3.simplify(r)
    st.assume(cls_of(r) == class_tag(cls))
    return VObj((cls,), r)


# ------------------------------------------------------------------ lists
def list_len(st, lst):
    return z3.Select(harr(st, "@len", I), lst.t)


def _el_keys(elem):
    return [("@el%d.%s" % (i, sort_key(s)), s) for i, s in enumerate(comp_sorts(elem))]


def list_arrays(st, lst):
    """Per component: the element array (Int -> sort) of this list."""
    out = []
    for key, s in _el_keys(lst.elem):
        out.append(z3.Select(harr_list(st, key, s), lst.t))
    return out


def harr_list(st, key, s):
    a = st.heap.get(key)
    if a is None:
        a = z3.Const("H0!" + key, z3.ArraySort(I, z3.ArraySort(I, s)))
        st.heap[key] = a
    return a


def list_get(st, lst, idx):
    ts = [z3.Select(a, idx) for a in list_arrays(st, lst)]
    v = from_terms(ts, lst.elem)
    assume_alloc(st, v, lst.elem)
    return v


def list_set_arrays(st, lst, n, arrays):
    st.heap["@len"] = z3.Store(harr(st, "@len", I), lst.t, n)
    for (key, s), a in zip(_el_keys(lst.elem), arrays):
        st.heap[key] = z3.Store(harr_list(st, key, s), lst.t, a)


def new_list(st, elem, n, arrays):
    r = z3.simplify(alloc(st))
    lst = VList(elem, r)
    if elem is None:      # [] whose element type is not known yet: only its length exists
        st.heap["@len"] = z3.Store(harr(st, "@len", I), lst.t, n)
        return lst
    list_set_arrays(st, lst, n, arrays)
    return lst


def fresh_arrays(elem, base="arr"):
    return [z3.Const(fresh_name(base), z3.ArraySort(I, s)) for s in comp_sorts(elem)]


def list_store(st, lst, idx, v):
    v = coerce(v, lst.elem)
    arrs = list_arrays(st, lst)
    new = [z3.Store(a, idx, t) for a, t in zip(arrs, to_terms(v, lst.elem))]
    list_set_arrays(st, lst, list_len(st, lst), new)


def defined_array(st, sort, body_fn, base="arr"):
    """A fresh array constant a with the defining axiom  forall k. a[k] == body_fn(k)  (instead of a z3 Lambda:
    lambda terms make the solver give up or ignore its timeout)."""
    a = z3.Const(fresh_name(base), z3.ArraySort(I, sort))
    k = z3.Int(fresh_name("k"))
    st.pc.append(z3.ForAll([k], a[k] == body_fn(k), patterns=[a[k]]))
    return a


def list_insert(st, lst, pos, v):
    v = coerce(v, lst.elem)
    n = list_len(st, lst)
    new = []
    for a, t in zip(list_arrays(st, lst), to_terms(v, lst.elem)):
        new.append(defined_array(st, a.sort().range(), lambda k, a=a, t=t: z3.If(k < pos, a[k], z3.If(k == pos, t, a[k - 1])), "ins"))
    list_set_arrays(st, lst, n + 1, new)


def list_delete(st, lst, pos):
    n = list_len(st, lst)
    new = [defined_array(st, a.sort().range(), lambda k, a=a: z3.If(k < pos, a[k], a[k + 1]), "del") for a in list_arrays(st, lst)]
    list_set_arrays(st, lst, n - 1, new)


def list_append(st, lst, v):
    v = coerce(v, lst.elem)
    n = list_len(st, lst)
    new = [z3.Store(a, n, t) for a, t in zip(list_arrays(st, lst), to_terms(v, lst.elem))]
    list_set_arrays(st, lst, n + 1, new)


def list_slice(st, lst, lo, hi):
    """New list xs[lo:hi] with 0 <= lo <= hi <= len already established by the caller."""
    new = [defined_array(st, a.sort().range(), lambda k, a=a: a[k + lo], "slice") for a in list_arrays(st, lst)]
    return new_list(st, lst.elem, hi - lo, new)


def list_concat(st, a, b):
    na, nb = list_len(st, a), list_len(st, b)
    new = [defined_array(st, x.sort().range(), lambda k, x=x, y=y: z3.If(k < na, x[k], y[k - na]), "cat")
           for x, y in zip(list_arrays(st, a), list_arrays(st, b))]
    return new_list(st, a.elem, na + nb, new)


def list_as_seq(st, lst):
    return VSeq(lst.elem, list_len(st, lst), list_arrays(st, lst))


# ------------------------------------------------------------------ sequences
def seq_get(seq, idx):
    ts = [z3.Select(a, idx) for a in seq.comps]
    return from_terms(ts, seq.elem)


def seq_append(seq, v):
    v = coerce(v, seq.elem)
    comps = [z3.Store(a, seq.n, t) for a, t in zip(seq.comps, to_terms(v, seq.elem))]
    return VSeq(seq.elem, seq.n + 1, comps)


def fresh_seq(elem, base="seq"):
    n = z3.Int(fresh_name(base + "_n"))
    return VSeq(elem, n, fresh_arrays(elem, base))


def empty_seq(elem):
    return VSeq(elem, z3.IntVal(0), [z3.K(I, _default_of(s)) for s in comp_sorts(elem)])


def _default_of(s):
    if s == I:
        return z3.IntVal(0)
    if s == B:
        return z3.BoolVal(False)
    return z3.Const("dflt!" + sort_key(s), s)


# ------------------------------------------------------------------ fresh values
def fresh_value(st, ty, base):
    ty = ty if isinstance(ty, Ty) else None
    if ty.k == "iter":
        seq = fresh_seq(ty.a[0], base)
        cell = fresh_name(base + "_cur")
        st.cells[cell] = z3.IntVal(0)
        st.assume(seq.n >= 0)
        return VIter(seq, cell)
    if ty.k == "func":
        raise Unsupported("cannot make a fresh function value for %s" % base)
    v = from_terms(fresh_terms(ty, base), ty)
    assume_alloc(st, v, ty)
    if ty.k == "seq":
        st.assume(v.n >= 0)
    return v


# ------------------------------------------------------------------ record maps (string-keyed rows of string-keyed fields)
def _map_arr(st, m, what, sort):
    key = "map:%s.%s" % (m.name, what)
    a = st.heap.get(key)
    if a is None:
        a = z3.Const("H0!" + key, z3.ArraySort(StrSort, sort))
        st.heap[key] = a
    return key, a


def map_has_row(st, m, keyt):
    return z3.Select(_map_arr(st, m, "@row", B)[1], keyt)


def map_has_field(st, row, fld):
    return z3.Select(_map_arr(st, row.m, "@has." + fld, B)[1], row.key)


def map_field_sort(m, fld):
    kind = VMap.FIELDS.get(m.name, {}).get(fld)
    if kind is None:
        raise Unsupported("record map %s has no declared field %r" % (m.name, fld))
    return I if kind == "int" else StrSort


def map_get(st, row, fld):
    srt = map_field_sort(row.m, fld)
    t = z3.Select(_map_arr(st, row.m, fld, srt)[1], row.key)
    return VInt(t) if srt == I else VStr(None, t)


def map_set(st, row, fld, v):
    srt = map_field_sort(row.m, fld)
    key, a = _map_arr(st, row.m, fld, srt)
    st.heap[key] = z3.Store(a, row.key, v.t)
    hk, ha = _map_arr(st, row.m, "@has." + fld, B)
    st.heap[hk] = z3.Store(ha, row.key, z3.BoolVal(True))


def map_new_row(st, m, keyt):
    rk, ra = _map_arr(st, m, "@row", B)
    st.heap[rk] = z3.Store(ra, keyt, z3.BoolVal(True))
    for fld in VMap.FIELDS.get(m.name, {}):
        hk, ha = _map_arr(st, m, "@has." + fld, B)
        st.heap[hk] = z3.Store(ha, keyt, z3.BoolVal(False))


def map_row_len(st, row):
    n = z3.IntVal(0)
    for fld in VMap.FIELDS.get(row.m.name, {}):
        n = n + z3.If(map_has_field(st, row, fld), 1, 0)
    return n
