"""Contracts for fibertree/model/intersect.py (C19).  Only the leader-follower model is within pyvc's subset: the two-finger and
skip-ahead models slice and compare lists of lists (trace rows) lexicographically."""
from pyvc.contracts import contract

F = "fibertree/model/intersect.py"

contract(F, "LeaderFollowerIntersector.addTraces",
         cases=[{"self": "LeaderFollowerIntersector", "*traces": "tuple[list[int]]"}],
         modifies=["self.num_intersects", "self.started"],
         ensures={"C19": [
             # the header row is discounted exactly once, by the first non-empty batch: totals are additive over batches
             "self.num_intersects == old(self.num_intersects) + len(traces[0]) - (1 if (not old(self.started)) and len(traces[0]) > 0 else 0)",
             "self.started == (old(self.started) or len(traces[0]) > 0)"]},
         note="a trace is modelled as a list whose elements are rows; only its length matters to this model")
