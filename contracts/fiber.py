"""Contracts for fibertree/core/fiber.py: search, point access, insertion, position assignment (C01, C03, C10)."""
from pyvc.contracts import contract

F = "fibertree/core/fiber.py"
M = "fibertree/core/metrics.py"

BOOK = ["self._saved_pos", "self._saved_count", "self._saved_dist"]     # bookkeeping a read may touch (C10)

# legal search-start shortcut: what getPayload asserts and the other accessors rely on
LEGAL_START = ("isnone(start_pos) or (0 <= val(start_pos) and (val(start_pos) == 0 or "
               "(val(start_pos) < len(self.coords) and self.coords[val(start_pos)] <= coord)))")

# tiny accessors: executed from their real bodies
for q in ("Fiber.isLazy", "Fiber._setIsLazy", "Fiber.getOwner", "Fiber.setOwner", "Fiber.getSavedPos",
          "Fiber._coordExists", "Fiber._clearSavedPosStats"):
    contract(F, q, inline=True)

contract(M, "Metrics.addUse", trusted=True,
         cases=[dict(cls="func", rank="str", coord="int", pos="int", type_="str"),
                dict(cls="func", rank="str", coord="int", pos="int", type_="opt[str]"),
                dict(cls="func", rank="str", coord="int", pos="int")],
         raises={"AssertionError": dict(when="not Metrics.collecting")},
         modifies=[], note="trace bookkeeping lives in dictionaries outside the modelled heap (C16 decides it, bounded)")

contract(F, "Fiber.setSavedPos",
         cases=[dict(self="Fiber", position="int", distance="int"), dict(self="Fiber", position="int")],
         case_names=["with_distance", "plain"], modifies=BOOK,
         ensures=["self._saved_pos == position"],
         note="the search statistics (_saved_count, _saved_dist) are in the frame but deliberately unspecified: no property speaks about them")

# ---------------------------------------------------------------- search
PARTITION = ["0 <= result <= len(%(xs)s)",
             "forall(lambda k: %(xs)s[k] < coord, 0, result)",
             "forall(lambda k: %(xs)s[k] >= coord, result, len(%(xs)s))"]
contract(F, "Fiber._coord2pos",
         cases=[dict(self="Fiber", coord="int"), dict(self="Fiber", coord="int", start_pos="opt[int]"),
                dict(self="Fiber", coord="int", coords="list[int]")],
         case_names=["bisect", "start_pos", "given_list"], returns="int",
         requires=["wf(self)", "isnone(self._max_coord)"],
         per_case={"bisect": dict(ensures=[x % dict(xs="self.coords") for x in PARTITION]),
                   "start_pos": dict(requires=[LEGAL_START], ensures=[x % dict(xs="self.coords") for x in PARTITION]),
                   # an explicit list to search (any ascending list, not necessarily the fiber's own)
                   "given_list": dict(requires=["sorted_weak(coords)"], ensures=[x % dict(xs="coords") for x in PARTITION])},
         modifies=[],
         ensures={"C01 C03 C07": ["0 <= result"]},
         loops={0: dict(invariant=["index == len(coords)", "coords is self.coords",
                                   "forall(lambda k: coords[k] < coord, val(start_pos), val(start_pos) + _i0)"])},
         note="the legal-start precondition is the one getPayload asserts; with it the linear search equals the bisect result "
              "(shortcut independence, C03/C07)")

contract(F, "Fiber.maxCoord", types=dict(self="Fiber"), returns="opt[int]",
         requires=["wf(self)", "isnone(self._max_coord)"], modifies=[],
         ensures=["isnone(result) == (len(self.coords) == 0)",
                  "implies(len(self.coords) > 0, val(result) == self.coords[len(self.coords) - 1])"])

contract(F, "Fiber.__len__", types=dict(self="Fiber"), returns="int",
         requires=["not self._is_lazy"], modifies=[], ensures=["result == len(self.coords)"])

# ---------------------------------------------------------------- default synthesis (tier B: bounded + trusted here)
contract(F, "Fiber._createDefault", verify=False, tier="B",
         cases=[dict(self="Fiber", addtorank="bool"), dict(self="Fiber")], case_names=["explicit", "default_true"],
         returns="Payload|Fiber", modifies=[],
         requires=["self.g_leaf"],
         ensures=["fresh(result)", "typeis(result, 'Payload')", "result.value == self.g_default"],
         note="leaf rank only: a fresh box holding the rank's default.  The interior-rank behaviour (fresh empty fiber, "
              "appended to the next rank iff addtorank) is decided by the bounded parts of C02/C03/C10")

contract(F, "Fiber.getDefault", verify=False, tier="B", types=dict(self="Fiber"), returns="Payload", modifies=[],
         ensures=["fresh(result)", "result.value == self.g_default"],
         note="rank/owner delegation of the default is abstracted by the ghost field g_default (for an interior fiber the real "
              "function returns the class Fiber, which Payload.isEmpty ignores)")

# ---------------------------------------------------------------- point access
# C07: the position saved by a shortcut search is itself a legal shortcut for any later coordinate >= coord, and is tight
SAVED_POS = ["self._saved_pos >= 0",
             "self._saved_pos == 0 or (self._saved_pos < len(self.coords) and self.coords[self._saved_pos] <= coord)"]
GETP_ENS = ["implies(member(coord, self.coords), exists(lambda k: 0 <= k < len(self.coords) and self.coords[k] == coord and result is self.payloads[k]))"]

contract(F, "Fiber.getPayload",
         cases=[{"self": "Fiber", "*coords": "tuple[int]"},
                {"self": "Fiber", "*coords": "tuple[int]", "start_pos": "opt[int]"},
                {"self": "Fiber", "*coords": "tuple[int]", "allocate": "bool", "default": "opt[U]", "start_pos": "opt[int]"}],
         case_names=["plain", "start_pos", "noalloc"],
         returns=["Payload|Fiber", "Payload|Fiber", "opt[Payload|Fiber]"],
         ghost={"coord": "coords[0]"},
         requires=["wf(self)", "isnone(self._max_coord)", "self.g_leaf", "not Metrics.collecting",
                   "forall(lambda k: typeis(self.payloads[k], 'Payload'), 0, len(self.payloads))"],
         per_case={
             "plain": dict(ensures=[
                 "forall(lambda k: implies(self.coords[k] == coord, result is self.payloads[k]), 0, len(self.coords))",
                 "implies(forall(lambda k: self.coords[k] != coord, 0, len(self.coords)), fresh(result) and typeis(result, 'Payload') and result.value == self.g_default)",
                 "self._saved_pos == old(self._saved_pos)"]),
             "start_pos": dict(requires=[LEGAL_START], ensures=[
                 "forall(lambda k: implies(self.coords[k] == coord, result is self.payloads[k]), 0, len(self.coords))",
                 "implies(forall(lambda k: self.coords[k] != coord, 0, len(self.coords)), fresh(result) and typeis(result, 'Payload') and result.value == self.g_default)",
                 "implies(not isnone(start_pos), " + " and ".join("(%s)" % x for x in SAVED_POS) + ")"]),
             "noalloc": dict(requires=[LEGAL_START, "not allocate"], ensures=[
                 "forall(lambda k: implies(self.coords[k] == coord, (not isnone(result)) and val(result) is self.payloads[k]), 0, len(self.coords))",
                 "implies(forall(lambda k: self.coords[k] != coord, 0, len(self.coords)) and isnone(default), isnone(result))",
                 "implies(isnone(default) and not isnone(result), exists(lambda k: 0 <= k and k < len(self.coords) and self.coords[k] == coord and val(result) is self.payloads[k], witness=[final(index)]))",
                 "implies(forall(lambda k: self.coords[k] != coord, 0, len(self.coords)) and not isnone(default), (not isnone(result)) and fresh(val(result)) and val(result).value == val(default))",
                 "implies(not isnone(start_pos), " + " and ".join("(%s)" % x for x in SAVED_POS) + ")"]),
         },
         modifies=BOOK,
         ensures={"C03 C10": ["unchanged_list(self.coords)", "unchanged_list(self.payloads)"]},
         note="one coordinate at a leaf rank with collection off; deeper points recurse on this contract (bounded part covers them)")

# ---------------------------------------------------------------- insertion
LEAF_WF = ["wf(self)", "isnone(self._max_coord)", "self.g_leaf",
           "forall(lambda k: typeis(self.payloads[k], 'Payload'), 0, len(self.payloads))"]

INSERTED = ("exists(lambda r: 0 <= r <= old(len(self.coords)) and self.coords[r] == coord and result is self.payloads[r]"
            " and same_elems(self.coords, old(seq(self.coords)), 0, r) and same_elems(self.coords, old(seq(self.coords)), r + 1, len(self.coords), -1)"
            " and same_elems(self.payloads, old(seq(self.payloads)), 0, r) and same_elems(self.payloads, old(seq(self.payloads)), r + 1, len(self.payloads), -1),"
            " witness=[final(%s)])")

contract(F, "Fiber._create_payload",
         cases=[dict(self="Fiber", coord="int"), dict(self="Fiber", coord="int", pos="opt[int]")],
         case_names=["search", "given_pos"], returns="Payload|Fiber",
         requires=LEAF_WF + ["forall(lambda k: self.coords[k] != coord, 0, len(self.coords))"],
         per_case={"given_pos": dict(requires=[
             "isnone(pos) or (0 <= val(pos) <= len(self.coords) and forall(lambda k: self.coords[k] < coord, 0, val(pos))"
             " and forall(lambda k: self.coords[k] > coord, val(pos), len(self.coords)))"],
             ensures=["implies(not isnone(pos), self.coords[val(pos)] == coord and result is self.payloads[val(pos)])"])},
         modifies=["list:self.coords", "list:self.payloads"],
         ensures={"C01 C03": ["wf(self)", "len(self.coords) == old(len(self.coords)) + 1",
                              "fresh(result)", "typeis(result, 'Payload')", "result.value == self.g_default",
                              INSERTED % "pos",
                              "forall(lambda k: typeis(self.payloads[k], 'Payload'), 0, len(self.payloads))"]})

contract(F, "Fiber.getPayloadRef",
         cases=[{"self": "Fiber", "*coords": "tuple[int]"},
                {"self": "Fiber", "*coords": "tuple[int]", "start_pos": "opt[int]"}],
         case_names=["plain", "start_pos"], returns="Payload|Fiber",
         ghost={"coord": "coords[0]"},
         requires=LEAF_WF + ["not Metrics.collecting"],
         per_case={"start_pos": dict(requires=[LEGAL_START])},
         modifies=BOOK + ["list:self.coords", "list:self.payloads"],
         ensures={"C01 C03": [
             "wf(self)",
             "forall(lambda k: typeis(self.payloads[k], 'Payload'), 0, len(self.payloads))",
             "exists(lambda r: 0 <= r < len(self.coords) and self.coords[r] == coord and result is self.payloads[r], witness=[final(index)])",
             "implies(old(member(coord, self.coords)), unchanged_list(self.coords) and unchanged_list(self.payloads))",
             "implies(not old(member(coord, self.coords)), len(self.coords) == old(len(self.coords)) + 1 and fresh(result) and result.value == self.g_default and "
             + INSERTED % "index" + ")",
             # membership-level consequences (what callers compose): nothing stored is lost or re-boxed, nothing but coord is added
             "forall(lambda i: exists(lambda j: 0 <= j and j < len(self.coords) and self.coords[j] == old(self.coords[i]) and self.payloads[j] is old(self.payloads[i]), "
             "witness=[i, i + 1]), 0, old(len(self.coords)))",
             "forall(lambda j: self.coords[j] == coord or exists(lambda i: 0 <= i and i < old(len(self.coords)) and old(self.coords[i]) == self.coords[j] "
             "and old(self.payloads[i]) is self.payloads[j], witness=[j, j - 1]), 0, len(self.coords))"]})

contract(F, "Fiber.getPosition",
         cases=[dict(self="Fiber", coord="int"), dict(self="Fiber", coord="int", start_pos="opt[int]")],
         case_names=["plain", "start_pos"], returns="opt[int]",
         requires=["wf(self)", "isnone(self._max_coord)"],
         per_case={"start_pos": dict(requires=[LEGAL_START])},
         modifies=BOOK,
         ensures={"C03 C10": ["unchanged_list(self.coords)", "unchanged_list(self.payloads)",
                              "isnone(result) == (not member(coord, self.coords))",
                              "implies(not isnone(result), 0 <= val(result) < len(self.coords) and self.coords[val(result)] == coord)"]})

contract(F, "Fiber.getPositionRef",
         cases=[dict(self="Fiber", coord="int"), dict(self="Fiber", coord="int", start_pos="opt[int]")],
         case_names=["plain", "start_pos"], returns="int",
         requires=LEAF_WF,
         per_case={"start_pos": dict(requires=[LEGAL_START])},
         modifies=BOOK + ["list:self.coords", "list:self.payloads"],
         ensures={"C01 C03": ["wf(self)", "0 <= result < len(self.coords)", "self.coords[result] == coord",
                              "implies(old(member(coord, self.coords)), unchanged_list(self.coords) and unchanged_list(self.payloads))",
                              "implies(not old(member(coord, self.coords)), len(self.coords) == old(len(self.coords)) + 1)"]})

# ---------------------------------------------------------------- append / position assignment / clear
contract(F, "Fiber.append",
         cases=[dict(self="Fiber", coord="int", value="U"), dict(self="Fiber", coord="int", value="Payload")],
         case_names=["scalar", "box"],
         requires=["wf(self)", "isnone(self._max_coord)"],
         raises={"AssertionError": dict(
             when="len(self.coords) > 0 and self.coords[len(self.coords) - 1] >= coord",
             ensures={"C01": ["unchanged_list(self.coords)", "unchanged_list(self.payloads)"]})},
         modifies=["list:self.coords", "list:self.payloads"],
         ensures={"C01": ["wf(self)", "len(self.coords) == old(len(self.coords)) + 1",
                          "self.coords[len(self.coords) - 1] == coord",
                          "same_elems(self.coords, old(seq(self.coords)), 0, old(len(self.coords)))",
                          "same_elems(self.payloads, old(seq(self.payloads)), 0, old(len(self.coords)))",
                          "typeis(self.payloads[len(self.payloads) - 1], 'Payload')"]},
         per_case={"scalar": dict(ensures=["self.payloads[len(self.payloads) - 1].value == value",
                                           "fresh(self.payloads[len(self.payloads) - 1])"]),
                   "box": dict(ensures=["self.payloads[len(self.payloads) - 1] is value"])})

contract(F, "Fiber.__setitem__",
         cases=[dict(self="Fiber", key="int", newvalue="CoordPayload"), dict(self="Fiber", key="int", newvalue="U")],
         case_names=["elem", "scalar"],
         requires=["wf(self)", "0 <= key < len(self.coords)"],
         raises={"CoordinateError": dict(
             when="(key > 0 and newvalue.coord <= self.coords[key - 1]) or (key + 1 < len(self.coords) and newvalue.coord >= self.coords[key + 1])",
             ensures={"C01": ["unchanged_list(self.coords)", "unchanged_list(self.payloads)"]})},
         modifies=["list:self.coords", "list:self.payloads"],
         ensures={"C01": ["wf(self)", "len(self.coords) == old(len(self.coords))",
                          "forall(lambda k: implies(k != key, self.coords[k] == old(self.coords[k]) and self.payloads[k] is old(self.payloads[k])), 0, len(self.coords))"]},
         per_case={"elem": dict(ensures=["self.coords[key] == newvalue.coord", "self.payloads[key] is newvalue.payload"]),
                   "scalar": dict(ensures=["self.coords[key] == old(self.coords[key])", "fresh(self.payloads[key])",
                                           "self.payloads[key].value == newvalue"])})

contract(F, "Fiber.clear", types=dict(self="Fiber"),
         modifies=["list:self.coords", "list:self.payloads", "self._is_lazy"],
         ensures={"C01": ["len(self.coords) == 0", "len(self.payloads) == 0", "not self._is_lazy"]})

contract(F, "Fiber.isEmpty", verify=False, tier="B", types=dict(self="Fiber"), returns="bool", modifies=[],
         ensures=["result == self.g_empty"],
         note="depth-recursive emptiness abstracted by the ghost field g_empty; agreement with content is checked by C12's bounded part")

contract(F, "Fiber.getShape", verify=False, tier="T",
         cases=[dict(self="Fiber", all_ranks="bool", authoritative="bool")], returns="opt[int]", modifies=[],
         note="shape through owner/rank attrs delegation; used by populate only for trace positions")

# ---------------------------------------------------------------- constructor checks (C01: constructors establish WF or raise)
contract(F, "Fiber._checkOrdered", types=dict(self="Fiber"), returns="opt[bool]",
         requires=["self._ordered"],
         raises={"AssertionError": dict(when="not sorted_strict(self.coords)")},
         modifies=[],
         ensures={"C01": ["sorted_strict(self.coords)"]},
         loops={0: dict(types={"c": "int", "last": "int"},
                        invariant=["coords is self.coords", "len(coords) > 0",
                                   "sorted_strict(coords, 0, _i0 + 1)", "last == coords[_i0]"])},
         note="an ordered fiber leaves the constructor's check only with strictly increasing coordinates; otherwise AssertionError")

contract(F, "Fiber._checkUnique", types=dict(self="Fiber"), returns="opt[bool]",
         requires=["self._ordered", "self._unique"],
         raises={"AssertionError": dict(when="exists(lambda k: 0 <= k and k + 1 < len(self.coords) and self.coords[k] == self.coords[k + 1])")},
         modifies=[],
         ensures={"C01": ["forall(lambda k: self.coords[k] != self.coords[k + 1], 0, len(self.coords) - 1)"]},
         loops={0: dict(types={"c": "int", "last": "opt[int]"},
                        invariant=["coords is self.coords",
                                   "forall(lambda k: coords[k] != coords[k + 1], 0, _i0 - 1)",
                                   "(_i0 == 0 and isnone(last)) or (_i0 > 0 and not isnone(last) and val(last) == coords[_i0 - 1])"])},
         note="adjacent duplicates are rejected (for an ordered fiber duplicates are adjacent)")

contract(F, "Fiber.extend", types=dict(self="Fiber", other="Fiber"),
         requires=["wf(self)", "wf(other)", "isnone(self._max_coord)", "not (self is other)",
                   "not (self.coords is other.coords)", "not (self.payloads is other.payloads)",
                   "not (self.coords is other.payloads)", "not (self.payloads is other.coords)",
                   # ghost consistency: a fiber without elements is empty
                   "implies(len(other.coords) == 0, other.g_empty)"],
         raises={"AssertionError": dict(
             when="(not other.g_empty) and len(self.coords) > 0 and self.coords[len(self.coords) - 1] >= other.coords[0]",
             ensures={"C01": ["unchanged_list(self.coords)", "unchanged_list(self.payloads)"]})},
         modifies=["list:self.coords", "list:self.payloads"],
         ensures={"C01": [
             "wf(self)", "unchanged_list(other.coords)", "unchanged_list(other.payloads)",
             "implies(other.g_empty, unchanged_list(self.coords) and unchanged_list(self.payloads))",
             "implies(not other.g_empty, len(self.coords) == old(len(self.coords)) + len(other.coords))",
             "implies(not other.g_empty, same_elems(self.coords, old(seq(self.coords)), 0, old(len(self.coords))) and "
             "same_elems(self.payloads, old(seq(self.payloads)), 0, old(len(self.coords))))",
             # the other fiber's elements follow, with its own payload objects (not copied)
             "implies(not other.g_empty, forall(lambda k: self.coords[old(len(self.coords)) + k] == other.coords[k] and "
             "self.payloads[old(len(self.coords)) + k] is other.payloads[k], 0, len(other.coords)))"]},
         note="an extension that would break the coordinate order is rejected and leaves the fiber as it was; an empty `other` (ghost emptiness, tier B) is a no-op")
