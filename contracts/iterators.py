"""Contracts for fibertree/core/iterators.py: traversal (C07) and co-iteration (C04)."""
from pyvc.contracts import contract

F = "fibertree/core/iterators.py"

ELEM = "tuple[int,Payload|Fiber]"          # ghost view of a yielded CoordPayload: (coord, payload reference)
BOOK = ["self._saved_pos", "self._saved_count", "self._saved_dist"]

contract(F, "_prep_metrics_inc", types=dict(fiber="Fiber"), returns="tuple[bool,str]", modifies=[],
         ensures=["result[0] == Metrics.collecting"],
         note="the rank id string comes through the owner / rank attributes (accessors executed from their real bodies)")

# qualifying element j of iterRange: in the half-open range and not empty
QUAL = ("((isnone(start) or self.coords[%(j)s] >= val(start)) and (isnone(end) or self.coords[%(j)s] < val(end))"
        " and not pempty(self.payloads[%(j)s], self.g_default))")

contract(F, "iterRange",
         cases=[dict(self="Fiber", start="opt[int]", end="opt[int]"),
                dict(self="Fiber", start="opt[int]", end="opt[int]", tick="bool", start_pos="opt[int]")],
         case_names=["plain", "start_pos"],
         yields=dict(elem=ELEM, abstract="(yielded.coord, yielded.payload)"),
         requires=["wf(self)", "not Metrics.collecting"],
         per_case={"start_pos": dict(requires=[
             # a valid shortcut: nothing before it would have been yielded
             "isnone(start_pos) or (0 <= val(start_pos) < len(self.coords) and "
             "forall(lambda j: not " + QUAL % dict(j="j") + ", 0, val(start_pos)))"])},
         modifies=BOOK,
         ensures={"C07 C04 C10": [
             "unchanged_list(self.coords)", "unchanged_list(self.payloads)",
             "forall(lambda k: allocated(out[k][1]), 0, len(out))",
             # without a start position the saved-position bookkeeping is not touched at all
             "implies(isnone(start_pos), self._saved_pos == old(self._saved_pos))",
             "forall(lambda a, b: implies(0 <= a and a < b and b < len(out), out[a][0] < out[b][0]))",
             # the saved position addresses the last element yielded (a legal shortcut for any later traversal)
             "isnone(start_pos) or len(out) == 0 or (0 <= self._saved_pos < len(self.coords) and self.coords[self._saved_pos] <= out[len(out) - 1][0])",
             # soundness: every yielded pair is a stored, in-range, non-empty element with its own payload object
             "forall(lambda k: exists(lambda j: 0 <= j < len(self.coords) and self.coords[j] == out[k][0] and self.payloads[j] is out[k][1] and "
             + QUAL % dict(j="j") + "), 0, len(out))",
             # completeness: every such element is yielded
             "forall(lambda j: implies(" + QUAL % dict(j="j") + ", exists(lambda k: 0 <= k < len(out) and out[k][0] == self.coords[j] and out[k][1] is self.payloads[j])), 0, len(self.coords))"]},
         loops={0: dict(
             types={"coord": "int", "payload": "Payload|Fiber", "j": "int"},
             modifies=BOOK,
             invariant=[
                 "wf(self)", "i >= 0", "not is_collecting", "forall(lambda k: allocated(out[k][1]), 0, len(out))", "implies(isnone(start_pos), self._saved_pos == old(self._saved_pos))",
                 "isnone(start_pos) or len(out) == 0 or (0 <= self._saved_pos < len(self.coords) and self.coords[self._saved_pos] <= out[len(out) - 1][0])",
                 "forall(lambda a, b: implies(0 <= a and a < b and b < len(out), out[a][0] < out[b][0]))",
                 "forall(lambda k: out[k][0] < self.coords[i + _i0], 0, len(out)) or i + _i0 >= len(self.coords)",
                 "forall(lambda k: exists(lambda j: 0 <= j < i + _i0 and self.coords[j] == out[k][0] and self.payloads[j] is out[k][1] and "
                 + QUAL % dict(j="j") + "), 0, len(out))",
                 "forall(lambda j: implies(" + QUAL % dict(j="j") + ", exists(lambda k: 0 <= k < len(out) and out[k][0] == self.coords[j] and out[k][1] is self.payloads[j])), 0, i + _i0)",
             ])})

# ---------------------------------------------------------------- co-iteration (C04)
contract(F, "_get_next", inline=True)

# what a fiber *presents* is the sequence Fiber.__iter__ yields: its contract (format dispatch to iterRange / iterRangeShape, proved) is in
# wrappers.py.  FMT_OK: the operand is traversed compressed (any rank), or uncompressed at a leaf rank holding boxes.
# the search statistics of an operand (bookkeeping no property speaks about) may change when it is traversed
STATS_AB = ["self.a_fiber._saved_count", "self.a_fiber._saved_dist", "self.b_fiber._saved_count", "self.b_fiber._saved_dist"]


def FMT_OK(x):
    fmt = "(val(%s._owner)._attrs._fmt if not isnone(%s._owner) else %s._rank_attrs._fmt)" % (x, x, x)
    return ("(%s == 'C' or (%s == 'U' and isnone(%s._max_coord) and %s.g_leaf and forall(lambda k: typeis(%s.payloads[k], 'Payload'), 0, len(%s.payloads))))"
            % (fmt, fmt, x, x, x, x))


A_HEAD = ("((not isnone(a_coord)) and (not isnone(a_payload)) and a.cur >= 1 and a.cur <= len(a.seq) and val(a_coord) == a.seq[a.cur - 1][0] and val(a_payload) is a.seq[a.cur - 1][1])"
          " or (isnone(a_coord) and a.cur == len(a.seq))")
B_HEAD = A_HEAD.replace("a_", "b_").replace("a.", "b.")
DONE_A = "(a.cur - 1 if not isnone(a_coord) else a.cur)"
DONE_B = "(b.cur - 1 if not isnone(b_coord) else b.cur)"
SORTED_OUT = "forall(lambda x, y: implies(0 <= x and x < y and y < len(out), out[x][0] < out[y][0]))"
SORTED_A = "forall(lambda x, y: implies(0 <= x and x < y and y < len(a.seq), a.seq[x][0] < a.seq[y][0]))"
SORTED_B = SORTED_A.replace("a.", "b.")

# termination of the merge loops: every iteration consumes an element of a or of b
MERGE_MEASURE = "(len(a.seq) - " + DONE_A + ") + (len(b.seq) - " + DONE_B + ")"
MERGE_TYPES = {"a_coord": "opt[int]", "b_coord": "opt[int]", "a_payload": "opt[Payload|Fiber]", "b_payload": "opt[Payload|Fiber]"}

AND_SOUND = ("forall(lambda k: exists(lambda i, j: 0 <= i and i < %s and 0 <= j and j < %s and a.seq[i][0] == out[k][0] and b.seq[j][0] == out[k][0]"
             " and out[k][1][0] is a.seq[i][1] and out[k][1][1] is b.seq[j][1]), 0, len(out))")
AND_COMPLETE = ("forall(lambda i, j: implies(0 <= i and i < len(a.seq) and 0 <= j and j < len(b.seq) and a.seq[i][0] == b.seq[j][0] and (%s),"
                " exists(lambda k: 0 <= k and k < len(out) and out[k][0] == a.seq[i][0], witness=[len(out) - 1])))")

contract(F, "__and__.and_iterator.__iter__", types=dict(self="and_iterator"),
         yields=dict(elem="tuple[int,tuple[Payload|Fiber,Payload|Fiber]]"),
         requires=["wf(self.a_fiber)", "wf(self.b_fiber)", "not Metrics.collecting", FMT_OK("self.a_fiber"), FMT_OK("self.b_fiber")],
         modifies=STATS_AB,
         ensures={"C04 C10": [
             SORTED_OUT.replace("a.", "final(a)."),
             (AND_SOUND % ("len(a.seq)", "len(b.seq)")).replace("a.seq", "final(a).seq").replace("b.seq", "final(b).seq"),
             (AND_COMPLETE % "True").replace("a.seq", "final(a).seq").replace("b.seq", "final(b).seq")]},
         loops={0: dict(types=MERGE_TYPES, decreases=MERGE_MEASURE, invariant=[
             "not is_collecting", "not a_traced", "not b_traced",
             SORTED_A, SORTED_B, A_HEAD, B_HEAD, SORTED_OUT,
             "forall(lambda k: implies(not isnone(a_coord), out[k][0] < val(a_coord)) and implies(not isnone(b_coord), out[k][0] < val(b_coord)), 0, len(out))",
             "forall(lambda k: exists(lambda i: 0 <= i and i < " + DONE_A + " and a.seq[i][0] == out[k][0]), 0, len(out))",
             "forall(lambda k: exists(lambda j: 0 <= j and j < " + DONE_B + " and b.seq[j][0] == out[k][0]), 0, len(out))",
             "forall(lambda i: implies(not isnone(a_coord), a.seq[i][0] >= val(a_coord)), " + DONE_A + ", len(a.seq))",
             "forall(lambda j: implies(not isnone(b_coord), b.seq[j][0] >= val(b_coord)), " + DONE_B + ", len(b.seq))",
             AND_SOUND % (DONE_A, DONE_B),
             AND_COMPLETE % ("i < " + DONE_A + " or j < " + DONE_B)])})

# ---- union / xor / difference: shared vocabulary
H_A = "forall(lambda i: implies(not isnone(b_coord), a.seq[i][0] < val(b_coord)), 0, " + DONE_A + ")"
H_B = "forall(lambda j: implies(not isnone(a_coord), b.seq[j][0] < val(a_coord)), 0, " + DONE_B + ")"
GE_A = "forall(lambda i: implies(not isnone(a_coord), a.seq[i][0] >= val(a_coord)), " + DONE_A + ", len(a.seq))"
GE_B = "forall(lambda j: implies(not isnone(b_coord), b.seq[j][0] >= val(b_coord)), " + DONE_B + ", len(b.seq))"
OUT_LT = ("forall(lambda k: implies(not isnone(a_coord), out[k][0] < val(a_coord)) and implies(not isnone(b_coord), out[k][0] < val(b_coord)), 0, len(out))")
IN_A = "exists(lambda i: 0 <= i and i < %s and a.seq[i][0] == out[k][0] and out[k][1][1] is a.seq[i][1])"
IN_B = "exists(lambda j: 0 <= j and j < %s and b.seq[j][0] == out[k][0] and out[k][1][2] is b.seq[j][1])"
NOT_IN_A = "forall(lambda i: a.seq[i][0] != out[k][0], 0, len(a.seq))"
NOT_IN_B = "forall(lambda j: b.seq[j][0] != out[k][0], 0, len(b.seq))"
UNION_ELEM = "tuple[int,tuple[str,Payload|Fiber,Payload|Fiber]]"


def or_sound(da, db, with_ab=True):
    """Truth-table clauses per output element, as separate implications (cheaper for the solver than one disjunction)."""
    masks = "out[k][1][0] == 'A' or out[k][1][0] == 'B'" + (" or out[k][1][0] == 'AB'" if with_ab else "")
    has_a = "out[k][1][0] != 'B'"
    has_b = "out[k][1][0] != 'A'"
    return [
        "forall(lambda k: " + masks + ", 0, len(out))",
        "forall(lambda k: implies(" + has_a + ", " + IN_A % da + "), 0, len(out))",
        "forall(lambda k: implies(" + has_b + ", " + IN_B % db + "), 0, len(out))",
        "forall(lambda k: implies(out[k][1][0] == 'A', " + NOT_IN_B + "), 0, len(out))",
        "forall(lambda k: implies(out[k][1][0] == 'B', " + NOT_IN_A + "), 0, len(out))",
        "forall(lambda k: implies(out[k][1][0] == 'A', fresh(out[k][1][2]) and typeis(out[k][1][2], 'Payload') and out[k][1][2].value == self.b_fiber.g_default), 0, len(out))",
        "forall(lambda k: implies(out[k][1][0] == 'B', fresh(out[k][1][1]) and typeis(out[k][1][1], 'Payload') and out[k][1][1].value == self.a_fiber.g_default), 0, len(out))",
    ]


# the default box made for the absent side is a new object every time: it is none of the payloads delivered before it
ALLOC_OUT = "forall(lambda k: allocated(out[k][1][1]) and allocated(out[k][1][2]), 0, len(out))"
DIST_A = ("forall(lambda k1, k2: implies(0 <= k1 and k1 < k2 and k2 < len(out) and out[k2][1][0] == 'A', "
          "not (out[k2][1][2] is out[k1][1][2]) and not (out[k2][1][2] is out[k1][1][1])))")
DIST_B = ("forall(lambda k1, k2: implies(0 <= k1 and k1 < k2 and k2 < len(out) and out[k2][1][0] == 'B', "
          "not (out[k2][1][1] is out[k1][1][1]) and not (out[k2][1][1] is out[k1][1][2])))")
ALLOC_SEQ = ["forall(lambda i: allocated(a.seq[i][1]), 0, len(a.seq))", "forall(lambda j: allocated(b.seq[j][1]), 0, len(b.seq))"]


def fin(s):
    return s.replace("a.seq", "final(a).seq").replace("b.seq", "final(b).seq")


OR_INV = ["not is_collecting", "not a_traced", "not b_traced", SORTED_A, SORTED_B, A_HEAD, B_HEAD, SORTED_OUT,
          OUT_LT, H_A, H_B, GE_A, GE_B] + or_sound(DONE_A, DONE_B) + ALLOC_SEQ + [ALLOC_OUT, DIST_A, DIST_B] + [
          "forall(lambda i: exists(lambda k: 0 <= k and k < len(out) and out[k][0] == a.seq[i][0], witness=[len(out) - 1]), 0, " + DONE_A + ")",
          "forall(lambda j: exists(lambda k: 0 <= k and k < len(out) and out[k][0] == b.seq[j][0], witness=[len(out) - 1]), 0, " + DONE_B + ")"]
LEAF_AB = ["wf(self.a_fiber)", "wf(self.b_fiber)", "self.a_fiber.g_leaf", "self.b_fiber.g_leaf", "not Metrics.collecting",
           FMT_OK("self.a_fiber"), FMT_OK("self.b_fiber")]

contract(F, "__or__.or_iterator.__iter__", types=dict(self="or_iterator"),
         yields=dict(elem=UNION_ELEM),
         requires=LEAF_AB, modifies=STATS_AB,
         ensures={"C04 C10": [
             fin(SORTED_OUT)] + [fin(x) for x in or_sound("len(a.seq)", "len(b.seq)")] + [DIST_A, DIST_B] + [
             fin("forall(lambda i: exists(lambda k: 0 <= k and k < len(out) and out[k][0] == a.seq[i][0]), 0, len(a.seq))"),
             fin("forall(lambda j: exists(lambda k: 0 <= k and k < len(out) and out[k][0] == b.seq[j][0]), 0, len(b.seq))")]},
         loops={0: dict(types=MERGE_TYPES, decreases=MERGE_MEASURE, invariant=OR_INV),
                1: dict(types=MERGE_TYPES, decreases=MERGE_MEASURE, invariant=OR_INV + ["isnone(a_coord) or isnone(b_coord)"]),
                2: dict(types=MERGE_TYPES, decreases=MERGE_MEASURE, invariant=OR_INV + ["isnone(a_coord)"])},
         note="leaf ranks: the absent side is a fresh box holding that fiber's default (interior ranks: C02/C10 bounded parts)")

# ---- xor: like union without the matching coordinates
XOR_INV = ([SORTED_A, SORTED_B, A_HEAD, B_HEAD, SORTED_OUT, OUT_LT, H_A, H_B, GE_A, GE_B] + or_sound(DONE_A, DONE_B, with_ab=False) + ALLOC_SEQ +
           [ALLOC_OUT, DIST_A, DIST_B] + [
    "forall(lambda i: exists(lambda j: 0 <= j and j < len(b.seq) and b.seq[j][0] == a.seq[i][0]) or exists(lambda k: 0 <= k and k < len(out) and out[k][0] == a.seq[i][0], witness=[len(out) - 1]), 0, " + DONE_A + ")",
    "forall(lambda j: exists(lambda i: 0 <= i and i < len(a.seq) and a.seq[i][0] == b.seq[j][0]) or exists(lambda k: 0 <= k and k < len(out) and out[k][0] == b.seq[j][0], witness=[len(out) - 1]), 0, " + DONE_B + ")"])
XOR_LEAF = ["wf(self.a_fiber)", "wf(self.b_fiber)", "self.a_fiber.g_leaf", "self.b_fiber.g_leaf", "not Metrics.collecting",
            FMT_OK("self.a_fiber"), FMT_OK("self.b_fiber")]

contract(F, "__xor__.xor_iterator.__iter__", types=dict(self="xor_iterator"),
         yields=dict(elem=UNION_ELEM),
         requires=XOR_LEAF, modifies=STATS_AB,
         ensures={"C04 C10": [fin(SORTED_OUT)] + [fin(x) for x in or_sound("len(a.seq)", "len(b.seq)", with_ab=False)] + [DIST_A, DIST_B] + [
             fin("forall(lambda i: exists(lambda j: 0 <= j and j < len(b.seq) and b.seq[j][0] == a.seq[i][0]) or exists(lambda k: 0 <= k and k < len(out) and out[k][0] == a.seq[i][0]), 0, len(a.seq))"),
             fin("forall(lambda j: exists(lambda i: 0 <= i and i < len(a.seq) and a.seq[i][0] == b.seq[j][0]) or exists(lambda k: 0 <= k and k < len(out) and out[k][0] == b.seq[j][0]), 0, len(b.seq))")]},
         loops={0: dict(types=MERGE_TYPES, decreases=MERGE_MEASURE, invariant=XOR_INV),
                1: dict(types=MERGE_TYPES, decreases=MERGE_MEASURE, invariant=XOR_INV + ["isnone(a_coord) or isnone(b_coord)"]),
                2: dict(types=MERGE_TYPES, decreases=MERGE_MEASURE, invariant=XOR_INV + ["isnone(a_coord)"])})

# ---- difference: a's elements whose coordinate b does not present, with a's own payloads
SUB_IN_A = "exists(lambda i: 0 <= i and i < %s and a.seq[i][0] == out[k][0] and out[k][1] is a.seq[i][1])"
SUB_INV = [SORTED_A, SORTED_B, A_HEAD, B_HEAD, SORTED_OUT, OUT_LT, H_A, H_B, GE_A, GE_B,
           "forall(lambda k: " + SUB_IN_A % DONE_A + ", 0, len(out))",
           "forall(lambda k: " + NOT_IN_B + ", 0, len(out))",
           "forall(lambda i: exists(lambda j: 0 <= j and j < len(b.seq) and b.seq[j][0] == a.seq[i][0]) or exists(lambda k: 0 <= k and k < len(out) and out[k][0] == a.seq[i][0], witness=[len(out) - 1]), 0, " + DONE_A + ")"]

contract(F, "__sub__.sub_iterator.__iter__", types=dict(self="sub_iterator"),
         yields=dict(elem=ELEM),
         requires=["wf(self.a_fiber)", "wf(self.b_fiber)", "not Metrics.collecting", FMT_OK("self.a_fiber"), FMT_OK("self.b_fiber")], modifies=STATS_AB,
         ensures={"C04 C10": [fin(SORTED_OUT),
                              fin("forall(lambda k: " + SUB_IN_A % "len(a.seq)" + ", 0, len(out))"),
                              fin("forall(lambda k: " + NOT_IN_B + ", 0, len(out))"),
                              fin("forall(lambda i: exists(lambda j: 0 <= j and j < len(b.seq) and b.seq[j][0] == a.seq[i][0]) or exists(lambda k: 0 <= k and k < len(out) and out[k][0] == a.seq[i][0]), 0, len(a.seq))")]},
         loops={0: dict(types=MERGE_TYPES, decreases=MERGE_MEASURE, invariant=SUB_INV),
                1: dict(types=MERGE_TYPES, decreases=MERGE_MEASURE, invariant=SUB_INV + ["isnone(a_coord) or isnone(b_coord)"])})

# ---------------------------------------------------------------- populate (C05, C01, C02): leaf rank, collection off
A = "self.a_fiber"
# the boxes of the destination are pairwise different objects (otherwise writing one offered reference writes another element too)
PAYLOADS_DISTINCT = "forall(lambda i, j: implies(i < j, not (%s.payloads[i] is %s.payloads[j])), 0, len(%s.payloads))" % (A, A, A)
PAYLOADS_ALLOCATED = "forall(lambda k: allocated(%s.payloads[k]), 0, len(%s.payloads))" % (A, A)
KEPT_ONLY_WRITTEN = ("forall(lambda k, j: implies(0 <= k and k < %%s and 0 <= j and j < len(%s.coords) and %s.coords[j] == %%s[k][0], "
                     "%s.payloads[j].value != %s.g_default))" % (A, A, A, A))
LSHIFT_REQ = ["wf(%s)" % A, "isnone(%s._max_coord)" % A, "%s.g_leaf" % A,
              "forall(lambda k: typeis(%s.payloads[k], 'Payload'), 0, len(%s.payloads))" % (A, A),
              "wf(self.b_fiber)", FMT_OK("self.b_fiber"), "not (self.a_fiber is self.b_fiber)", "not Metrics.collecting", "isnone(self.spec_pos)",
              # leaf rank: no next rank to pop from
              "isnone(%s._owner) or isnone(val(%s._owner).next_rank)" % (A, A),
              PAYLOADS_DISTINCT, PAYLOADS_ALLOCATED]
LSHIFT_MOD = ["self.b_fiber._saved_count", "self.b_fiber._saved_dist", "list:%s.coords" % A, "list:%s.payloads" % A, "%s._saved_pos" % A, "%s._saved_count" % A, "%s._saved_dist" % A,
              "any:Payload.value"]

contract(F, "__lshift__.lshift_iterator.__iter__", types=dict(self="lshift_iterator"), tier="P",
         lemmas={"new_a_payload = a_payload is None": [
             # the search position splits the destination's coordinates around b_coord ...
             "0 <= a_pos <= len(%s.coords)" % A,
             "forall(lambda k: %s.coords[k] < b_coord, 0, a_pos)" % A,
             "forall(lambda k: %s.coords[k] >= b_coord, a_pos, len(%s.coords))" % (A, A),
             "forall(lambda k: %s.coords[k] > b_coord, a_pos + 1, len(%s.coords))" % (A, A),
             "implies(not (a_pos < len(%s.coords) and %s.coords[a_pos] == b_coord), forall(lambda k: %s.coords[k] != b_coord, 0, len(%s.coords)))" % (A, A, A, A),
             # ... so the destination holds b_coord exactly when that position addresses it
             "implies(a_pos < len(%s.coords) and %s.coords[a_pos] == b_coord, not new_a_payload)" % (A, A),
             "implies(not (a_pos < len(%s.coords) and %s.coords[a_pos] == b_coord), new_a_payload)" % (A, A)],
             # the element removed again is the one at the search position, and b_coord is then absent
             "index = bisect.bisect_left(": ["index == a_pos"],
             # what is offered: the box stored at b_coord in the destination, showing the default when it was just created
             "before:(a_payload, b_payload)": [
                 "a_pos < len(%s.coords) and %s.coords[a_pos] == b_coord and a_payload is %s.payloads[a_pos]" % (A, A, A),
                 "typeis(a_payload, 'Payload')",
                 "implies(new_a_payload, a_payload.value == %s.g_default)" % A],
             # what is kept: a box the body left with a non-default value is still stored at b_coord when the iteration ends
             "before:a_pos += 1": [
                 "implies(a_payload.value != %s.g_default, a_pos < len(%s.coords) and %s.coords[a_pos] == b_coord and %s.payloads[a_pos] is a_payload)" % (A, A, A, A)],
             "a_pos += 1": [
                 "forall(lambda j: implies(%s.coords[j] == b_coord, %s.payloads[j].value != %s.g_default), 0, len(%s.coords))" % (A, A, A, A),
                 KEPT_ONLY_WRITTEN % ("b_pos", "b.seq")],
             "del self.a_fiber.payloads[index]": ["forall(lambda k: %s.coords[k] != b_coord, 0, len(%s.coords))" % (A, A)]},
         yields=dict(elem="tuple[int,tuple[Payload|Fiber,Payload|Fiber]]",
                     # "all loop bodies": at a yield the consumer may write the value of the box it was handed, nothing else
                     consumer_may_modify=["yielded[1][0].value"]),
         requires=LSHIFT_REQ, modifies=LSHIFT_MOD,
         ensures={"C05 C01": [
             "wf(%s)" % A,
             "forall(lambda k: typeis(%s.payloads[k], 'Payload'), 0, len(%s.payloads))" % (A, A),
             "len(out) == len(final(b).seq)",
             "forall(lambda k: out[k][0] == final(b).seq[k][0] and out[k][1][1] is final(b).seq[k][1], 0, len(out))",
             # coordinates the body left at the default leave no element behind
             KEPT_ONLY_WRITTEN % ("len(out)", "out"),
             PAYLOADS_DISTINCT]},
         loops={0: dict(
             types={"b_coord": "int", "b_payload": "Payload|Fiber", "a_pos": "int", "b_pos": "int", "maybe_remove": "bool"},
             modifies=LSHIFT_MOD,
             invariant=[
                 "not is_collecting", "not a_read_traced", "not a_write_traced", "not b_traced", "not inserting",
                 "wf(%s)" % A,
                 "forall(lambda k: typeis(%s.payloads[k], 'Payload'), 0, len(%s.payloads))" % (A, A),
                 "0 <= a_pos <= len(%s.coords)" % A,
                 "(_i0 == 0 and a_pos == 0) or (_i0 > 0 and forall(lambda k: %s.coords[k] <= b.seq[_i0 - 1][0], 0, a_pos))" % A,
                 "b.cur == _i0" if False else "True",
                 "len(out) == _i0",
                 "forall(lambda k: out[k][0] == b.seq[k][0] and out[k][1][1] is b.seq[k][1], 0, len(out))",
                 PAYLOADS_ALLOCATED,
                 PAYLOADS_DISTINCT,
                 KEPT_ONLY_WRITTEN % ("_i0", "b.seq")])},
         note="Scope: leaf destination rank, no start position, collection off. The body of the consumer loop is modelled as an arbitrary write to the value "
              "of the box offered at that yield. Intermediate assertions (lemmas) carry the position argument: the search position splits the destination's "
              "coordinates around b_coord, so the destination holds b_coord exactly when a_pos addresses it. Untouched coordinates, interior ranks with the "
              "next-rank pop, nesting and tracing are decided by C05's bounded part")

# ---------------------------------------------------------------- shape iteration (C07)
SHAPE_REQ = ["wf(self)", "isnone(self._max_coord)", "self.g_leaf", "not Metrics.collecting", "step >= 1",
             "forall(lambda k: typeis(self.payloads[k], 'Payload'), 0, len(self.payloads))"]
STORED_OR_DEFAULT = [
    "forall(lambda k: out[k][0] == start + k * step, 0, len(out))",
    "forall(lambda k: allocated(out[k][1]), 0, len(out))",
    # the payload delivered is the stored payload object, or a fresh default when the coordinate is absent
    "forall(lambda k: forall(lambda j: implies(self.coords[j] == out[k][0], out[k][1] is self.payloads[j]), 0, len(self.coords)), 0, len(out))",
    "forall(lambda k: implies(forall(lambda j: self.coords[j] != out[k][0], 0, len(self.coords)), fresh(out[k][1])), 0, len(out))",
    "forall(lambda k: implies(forall(lambda j: self.coords[j] != out[k][0], 0, len(self.coords)), typeis(out[k][1], 'Payload')), 0, len(out))",
    "forall(lambda k: implies(forall(lambda j: self.coords[j] != out[k][0], 0, len(self.coords)), out[k][1].value == self.g_default), 0, len(out))"]

contract(F, "iterRangeShape",
         cases=[dict(self="Fiber", start="int", end="int"), dict(self="Fiber", start="int", end="int", step="int"),
                dict(self="Fiber", start="int", end="int", tick="bool")],
         case_names=["unit_step", "step", "unit_step_tick"],
         yields=dict(elem=ELEM, abstract="(yielded.coord, yielded.payload)"),
         requires=SHAPE_REQ, modifies=BOOK,
         per_case={"unit_step": dict(ensures=["forall(lambda k: out[k][0] == start + k, 0, len(out))"]),
                   "unit_step_tick": dict(ensures=["forall(lambda k: out[k][0] == start + k, 0, len(out))"])},
         ensures={"C07 C10": ["unchanged_list(self.coords)", "unchanged_list(self.payloads)", "self._saved_pos == old(self._saved_pos)",
                              "len(out) == (0 if end <= start else (end - start + step - 1) // step)"] + STORED_OR_DEFAULT},
         loops={0: dict(types={"c": "int", "p": "Payload|Fiber"}, modifies=BOOK,
                        invariant=["wf(self)", "not is_collecting", "len(out) == _i0", "self._saved_pos == old(self._saved_pos)"] + STORED_OR_DEFAULT)},
         note="every coordinate of range(start, end, step), each with the stored payload or a fresh default; the tree is not touched")

REF_POST = [
    "forall(lambda k: out[k][0] == start + k * step, 0, len(out))",
    # every visited coordinate is now stored ...
    "forall(lambda k: exists(lambda j: 0 <= j and j < len(self.coords) and self.coords[j] == out[k][0]), 0, len(out))",
    # ... and the payload delivered is the stored payload object at that coordinate
    "forall(lambda k: forall(lambda j: implies(self.coords[j] == out[k][0], out[k][1] is self.payloads[j]), 0, len(self.coords)), 0, len(out))",
    # every element that was stored is still stored with the same payload object (no other point is disturbed)
    "forall(lambda i: exists(lambda j: 0 <= j and j < len(self.coords) and self.coords[j] == old(self.coords[i]) and self.payloads[j] is old(self.payloads[i])), 0, old(len(self.coords)))",
    # exactly the visited absent coordinates were inserted: every stored coordinate was stored before or is a visited one
    "forall(lambda j: exists(lambda i: 0 <= i and i < old(len(self.coords)) and old(self.coords[i]) == self.coords[j]) or "
    "(start <= self.coords[j] and self.coords[j] < start + len(out) * step and (self.coords[j] - start) % step == 0), 0, len(self.coords))"]

contract(F, "iterRangeShapeRef",
         cases=[dict(self="Fiber", start="int", end="int")],
         case_names=["unit_step"],
         # only the membership-level postcondition of getPayloadRef is composed here, not its positional (shift) form
         callee_views={"Fiber.getPayloadRef": ["same_elems", "unchanged_list"]},
         yields=dict(elem=ELEM, abstract="(yielded.coord, yielded.payload)"),
         requires=SHAPE_REQ, modifies=BOOK + ["list:self.coords", "list:self.payloads"],
         per_case={"unit_step": dict(ensures=["forall(lambda k: out[k][0] == start + k, 0, len(out))"])},
         ensures={"C07 C01": ["wf(self)", "forall(lambda k: typeis(self.payloads[k], 'Payload'), 0, len(self.payloads))",
                              "len(out) == (0 if end <= start else (end - start + step - 1) // step)"] + REF_POST},
         loops={0: dict(types={"c": "int", "p": "Payload|Fiber"}, modifies=BOOK + ["list:self.coords", "list:self.payloads"],
                        invariant=["wf(self)", "not is_collecting", "len(out) == _i0", "isnone(self._max_coord)", "self.g_leaf",
                                   "forall(lambda k: typeis(self.payloads[k], 'Payload'), 0, len(self.payloads))"] + REF_POST)},
         note="reference variant: inserts exactly the visited absent coordinates, delivers the stored payload objects, disturbs nothing else. "
              "Proved for the default step 1; with a symbolic step the visited-set clause is non-linear (k * step, % step) and both solvers give up, "
              "so other steps are covered by C07's bounded part only")
