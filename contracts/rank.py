"""Contracts for fibertree/core/rank.py (C02 bookkeeping primitives)."""
from pyvc.contracts import contract

F = "fibertree/core/rank.py"

for q in ("Rank.getFibers", "Rank.getNextRank", "Rank.getAttrs"):
    contract(F, q, inline=True)

contract(F, "Rank.pop", types=dict(self="Rank"), returns="Fiber",
         requires=["len(self.fibers) > 0"],
         modifies=["list:self.fibers", "self.fibers[len(self.fibers) - 1]._owner"],
         ensures={"C02 C05": ["len(self.fibers) == old(len(self.fibers)) - 1",
                              "result is old(self.fibers[len(self.fibers) - 1])",
                              "isnone(result._owner)",
                              "same_elems(self.fibers, old(seq(self.fibers)), 0, len(self.fibers))"]})

contract(F, "Rank.clearFibers", types=dict(self="Rank"),
         modifies=["self.fibers"],
         ensures={"C02": ["len(self.fibers) == 0", "fresh(self.fibers)"]})

contract(F, "Rank.append", verify=False, tier="B", types=dict(self="Rank", fiber="Fiber"),
         modifies=["list:self.fibers", "fiber._owner"],
         ensures=["len(self.fibers) == old(len(self.fibers)) + 1", "self.fibers[len(self.fibers) - 1] is fiber",
                  "same_elems(self.fibers, old(seq(self.fibers)), 0, old(len(self.fibers)))",
                  "(not isnone(fiber._owner)) and val(fiber._owner) is self"],
         note="shape estimation and the default-kind assertions go through RankAttrs/type objects (not modelled); "
              "the list/owner effect is checked by C02's bounded part at every step")
