"""Contracts for the compression-format codecs (C20): fibertree/codec/formats/*.py.

The cache a caller plugs into an encoded fiber and the per-fiber statistics dictionary have no source in the
repository: they are external classes whose methods exist here only through trusted contracts (they touch their
own state and nothing of the encoded fiber)."""
from pyvc.contracts import contract, field
from pyvc import source

CL = "fibertree/codec/formats/coord_list.py"
CF = "fibertree/codec/formats/compression_format.py"
X = "<extern>"

source.extern_class("Cache", {"get": "def get(self, key):", "__setitem__": "def __setitem__(self, key, value):"})
source.extern_class("StatsDict", {"__getitem__": "def __getitem__(self, key):", "__setitem__": "def __setitem__(self, key, value):"})
field("Cache.g_state", "int")
field("Cache.miss_count", "int")
field("StatsDict.g_state", "int")

contract(X, "Cache.get", trusted=True, tier="T", types=dict(self="Cache", key="str"), returns="opt[U]", modifies=["self.g_state", "self.miss_count"],
         note="external: the cache object plugged into an encoded fiber (swoop's LRU cache / the harness's stub); a lookup touches only the cache")
contract(X, "Cache.__setitem__", trusted=True, tier="T", cases=[dict(self="Cache", key="str", value="int"), dict(self="Cache", key="str", value="U")],
         modifies=["self.g_state", "self.miss_count"], note="external: filling a cache line touches only the cache")
contract(X, "StatsDict.__getitem__", trusted=True, tier="T", types=dict(self="StatsDict", key="str"), returns="int", modifies=[],
         note="the per-fiber statistics dict: every key used is initialised to 0 by CompressionFormat.__init__")
contract(X, "StatsDict.__setitem__", trusted=True, tier="T", types=dict(self="StatsDict", key="str", value="int"), modifies=["self.g_state"])

for cls in ("CompressionFormat",):
    field(cls + ".coords", "list[int]")
    field(cls + ".payloads", "list[U]")
    field(cls + ".occupancies", "list[U]")
    field(cls + ".name", "str")
    field(cls + ".cache", "Cache")
    field(cls + ".stats", "StatsDict")
    field(cls + ".coords_read_key", "str")
    field(cls + ".coords_write_key", "str")
    field(cls + ".payloads_read_key", "str")
    field(cls + ".payloads_write_key", "str")
    field(cls + ".words_in_line", "int")
    field(cls + ".next_fmt", "opt[CompressionFormat]")
    field(cls + ".is_leaf", "bool")

C = "self.coords"
# statements that only feed the plugged-in cache / the statistics dictionary (cost accounting; C20 does not speak about them)
ACCOUNTING = ["self.cache", "self.stats", "key = ", "print(", "countCoordsCache(", "end_of_line = ", "end_of_range = ", "range_end = ", "if self.name.startswith",
              "% self.bits_per_line", "for i in range(handle, end_of_range)", "for i in range(payload, end_of_range)"]
contract(CL, "CoordinateList.coordToHandle", mutant_skip=ACCOUNTING, types=dict(self="CoordinateList", coord="int"), returns="opt[int]",
         requires=["sorted_strict(self.coords)"],
         modifies=["self.cache.g_state", "self.cache.miss_count", "self.stats.g_state"],
         ensures={"C20": [
             "unchanged_list(self.coords)",
             # the handle of the first stored coordinate not below the query; None when every stored coordinate is below it
             "isnone(result) == forall(lambda k: self.coords[k] < coord, 0, len(self.coords))",
             "implies(not isnone(result), 0 <= val(result) and val(result) < len(self.coords) and self.coords[val(result)] >= coord and "
             "forall(lambda k: self.coords[k] < coord, 0, val(result)))"]},
         loops={0: dict(
             types={"lo": "int", "hi": "int", "mid": "int"},
             modifies=["self.cache.g_state", "self.cache.miss_count", "self.stats.g_state"],
             invariant=[
                 "len(self.coords) >= 2", "self.coords[0] < coord", "coord <= self.coords[len(self.coords) - 1]",
                 "0 <= lo", "hi <= len(self.coords) - 1", "lo <= hi + 1", "0 <= mid < len(self.coords)",
                 "forall(lambda k: self.coords[k] < coord, 0, lo)",
                 "forall(lambda k: self.coords[k] > coord, hi + 1, len(self.coords))",
                 "(mid == 0 and lo == 0 and hi == len(self.coords) - 1) or (mid == lo - 1 and self.coords[mid] < coord) or (mid == hi + 1 and self.coords[mid] > coord)"],
             decreases="hi - lo + 1")},
         note="binary search of the coordinate-list format with a ceil midpoint; cache fills and statistics are side effects on external objects")

# ------------------------------------------------------------------ sizes: the number of words the layout stores (leaf fibers)
UC = "fibertree/codec/formats/uncompressed.py"
BV = "fibertree/codec/formats/bitvector.py"
field("CompressionFormat.shape", "opt[int]")
field("CompressionFormat.idx_in_rank", "opt[int]")
field("CompressionFormat.coords_handle", "opt[int]")
field("CompressionFormat.num_to_ret", "opt[int]")
field("CompressionFormat.num_ret_so_far", "int")
field("CompressionFormat.base", "int")
field("CompressionFormat.bound", "opt[int]")
field("CompressionFormat.count_payload_reads", "bool")
field("Bitvector.bits_per_word", "int")
field("Bitvector.bits_per_line", "int")
field("Bitvector.iter_handle", "TwoHandle")
field("TwoHandle.coords_handle", "opt[int]")
field("TwoHandle.payloads_handle", "opt[int]")

LEAF = "isnone(self.next_fmt)"
contract(CL, "CoordinateList.getSize", types=dict(self="CoordinateList"), returns="int", requires=[LEAF], modifies=[],
         ensures={"C20": ["result == len(self.coords) + len(self.occupancies) + len(self.payloads)"]},
         note="leaf fiber: explicit coordinates + payload entries (+ occupancy entries, none at a leaf)")
contract(UC, "Uncompressed.getSize", types=dict(self="Uncompressed"), returns="int", requires=[LEAF], modifies=[],
         raises={"AssertionError": dict(when="len(self.payloads) == 0 or len(self.coords) != 0")},
         ensures={"C20": ["result == len(self.occupancies) + len(self.payloads)"]},
         note="leaf fiber: implicit positions, one payload entry per position")
contract(BV, "Bitvector.getSize", types=dict(self="Bitvector"), returns="int", requires=[LEAF, "self.bits_per_word >= 1"], modifies=[],
         ensures={"C20": ["result == ceil_div(len(self.coords), self.bits_per_word) + len(self.occupancies) + len(self.payloads)"]},
         note="leaf fiber: mask words (ceil of bits / word size) + payload entries")

# ------------------------------------------------------------------ coordinate <-> handle of the implicit formats
contract(UC, "Uncompressed.coordToHandle", types=dict(self="Uncompressed", coord="int"), returns="opt[int]",
         requires=["not isnone(self.shape)"], modifies=[],
         ensures={"C20": ["isnone(result) == (coord < 0 or coord >= val(self.shape))", "implies(not isnone(result), val(result) == coord)"]})
contract(UC, "Uncompressed.handleToCoord", types=dict(self="Uncompressed", handle="int"), returns="int", modifies=[],
         ensures={"C20": ["result == handle"]})
contract(BV, "Bitvector.coordToHandle", types=dict(self="Bitvector", coord="int"), returns="int", modifies=[],
         ensures={"C20": ["result == coord"]})

# ------------------------------------------------------------------ scanning an encoded fiber through its handle interface
SIDE = ["self.cache.g_state", "self.cache.miss_count", "self.stats.g_state"]
from pyvc.contracts import REGISTRY
_ci = REGISTRY[(X, "Cache.__setitem__")]
from pyvc.values import parse_ty
_ci.cases.append({k: parse_ty(v) for k, v in dict(self="Cache", key="str", value="list[int]").items()})
_ci.case_names.append("case2")
_ci.returns.append(parse_ty("none"))
_ci.consts.append({})

contract(BV, "Bitvector.getWordStart", types=dict(self="Bitvector", index="int"), returns="int", requires=["self.bits_per_line >= 1"], modifies=[],
         ensures={"C20": ["result == (index // self.bits_per_line) * self.bits_per_line"]})

contract(BV, "Bitvector.countCoordsCache", mutant_skip=ACCOUNTING, types=dict(self="Bitvector", handle="int"),
         requires=["self.bits_per_line >= 1", "len(self.payloads) >= 0"],      # (the second clause only names the payload list in the pre-state)
         modifies=SIDE, ensures={"C20": ["unchanged_list(self.coords)", "unchanged_list(self.payloads)"]},
         note="cost accounting only: fills the cache line holding the mask word and counts one read")

contract(BV, "Bitvector.countLeft", mutant_skip=ACCOUNTING, types=dict(self="Bitvector", coords_handle="int"), returns="int",
         ghost={"S": "psum(self.coords)"},
         requires=["self.bits_per_line >= 1", "0 <= coords_handle <= len(self.coords)", "len(self.payloads) >= 0"],
         modifies=SIDE,
         ensures={"C20": ["result == S(coords_handle)", "unchanged_list(self.coords)", "unchanged_list(self.payloads)"]},
         loops={0: dict(types={"i": "int", "result": "int"}, modifies=SIDE,
                        invariant=["result == S(_i0)", "unchanged_list(self.coords)", "unchanged_list(self.payloads)"])},
         note="the payload handle of a mask position: the number of set bits to its left (S = prefix sums of the mask)")

contract(BV, "TwoHandle.__init__", cases=[dict(self="TwoHandle", coords_handle="opt[int]", payloads_handle="opt[int]")],
         modifies=["self.coords_handle", "self.payloads_handle"],
         ensures={"C20": ["iff(isnone(self.coords_handle), isnone(coords_handle))", "iff(isnone(self.payloads_handle), isnone(payloads_handle))",
                          "implies(not isnone(coords_handle), val(self.coords_handle) == val(coords_handle))",
                          "implies(not isnone(payloads_handle), val(self.payloads_handle) == val(payloads_handle))"]})

IH = "self.iter_handle"
contract(BV, "Bitvector.handleToCoord", mutant_skip=ACCOUNTING, types=dict(self="Bitvector", iter_handle="TwoHandle"), returns="opt[int]",
         requires=["self.bits_per_line >= 1", "len(self.payloads) >= 0"], modifies=SIDE,
         ensures={"C20": ["unchanged_list(self.coords)", "unchanged_list(self.payloads)",
                          "isnone(result) == (isnone(iter_handle.coords_handle) or val(iter_handle.coords_handle) >= len(self.coords))",
                          "implies(not isnone(result), val(result) == val(iter_handle.coords_handle))"]},
         note="a mask position is its own coordinate")

contract(BV, "Bitvector.nextInSlice", mutant_skip=ACCOUNTING, types=dict(self="Bitvector"), returns="opt[TwoHandle]",
         requires=["self.bits_per_line >= 1", "len(self.payloads) >= 0",
                   "not isnone(%s.coords_handle) and not isnone(%s.payloads_handle)" % (IH, IH), "val(%s.coords_handle) >= 0" % IH],
         modifies=SIDE + ["%s.coords_handle" % IH, "%s.payloads_handle" % IH, "self.num_ret_so_far"],
         ensures={"C20": [
             "unchanged_list(self.coords)", "unchanged_list(self.payloads)",
             # a handle is returned for the next set mask bit at or after the scan position, paired with the running payload handle
             "implies(not isnone(result), fresh(val(result)) and not isnone(val(result).coords_handle) and not isnone(val(result).payloads_handle))",
             "implies(not isnone(result), old(val(%s.coords_handle)) <= val(val(result).coords_handle) and val(val(result).coords_handle) < len(self.coords) "
             "and self.coords[val(val(result).coords_handle)] == 1)" % IH,
             "implies(not isnone(result), forall(lambda k: self.coords[k] != 1, old(val(%s.coords_handle)), val(val(result).coords_handle)))" % IH,
             "implies(not isnone(result), val(val(result).payloads_handle) == old(val(%s.payloads_handle)) and val(val(result).payloads_handle) < len(self.payloads))" % IH,
             "implies(not isnone(result), val(%s.coords_handle) == val(val(result).coords_handle) + 1 and val(%s.payloads_handle) == old(val(%s.payloads_handle)) + 1 "
             "and self.num_ret_so_far == old(self.num_ret_so_far) + 1)" % (IH, IH, IH),
             # nothing is returned only when the scan is exhausted (no set bit left, no payload left, or the requested number reached)
             "implies(isnone(result), old(val(%s.payloads_handle)) >= len(self.payloads) or "
             "(not isnone(self.num_to_ret) and val(self.num_to_ret) < old(self.num_ret_so_far)) or "
             "forall(lambda k: self.coords[k] != 1, old(val(%s.coords_handle)), len(self.coords)))" % (IH, IH)]},
         loops={0: dict(modifies=SIDE + ["%s.coords_handle" % IH],
                        invariant=["unchanged_list(self.coords)", "unchanged_list(self.payloads)",
                                   "not isnone(%s.coords_handle)" % IH,
                                   "old(val(%s.coords_handle)) <= val(%s.coords_handle) <= len(self.coords)" % (IH, IH),
                                   "forall(lambda k: self.coords[k] != 1, old(val(%s.coords_handle)), val(%s.coords_handle))" % (IH, IH)],
                        decreases="len(self.coords) - val(%s.coords_handle)" % IH)},
         note="one step of scanning a bit-vector fiber: the scan visits exactly the set mask positions in order, with consecutive payload handles")

# ------------------------------------------------------------------ the shared handle interface (CompressionFormat), as inherited by C and U fibers
contract(CF, "CompressionFormat.round_up",
         cases=[dict(self=c, n="int", multiple="int") for c in ("CoordinateList", "Uncompressed", "Bitvector")], returns="int",
         requires=["multiple >= 1"], modifies=[],
         ensures={"C20": ["result == ((n + 1 if n % multiple == 0 else n) + multiple - 1) // multiple * multiple"]},
         note="cache-line rounding: only bounds cost-accounting loops, no functional clause depends on its value")

contract(CF, "CompressionFormat.handleToCoord", mutant_skip=ACCOUNTING, types=dict(self="CoordinateList", handle="opt[int]"), returns="opt[int]",
         requires=["isnone(handle) or val(handle) >= 0", "self.words_in_line >= 1", "len(self.payloads) >= 0"], modifies=SIDE,
         ensures={"C20": ["unchanged_list(self.coords)", "unchanged_list(self.payloads)",
                          "isnone(result) == (isnone(handle) or val(handle) >= len(self.coords))",
                          "implies(not isnone(result), val(result) == self.coords[val(handle)])"]},
         loops={0: dict(types={"i": "int"}, modifies=SIDE, invariant=["unchanged_list(self.coords)", "unchanged_list(self.payloads)"])},
         note="a handle of a coordinate-list fiber addresses the coordinate stored at that index (the only format that inherits this method)")

contract(CF, "CompressionFormat.handleToPayload", mutant_skip=ACCOUNTING, types=dict(self="Uncompressed", handle="opt[int]"), returns="opt[int]",
         requires=["len(self.coords) >= 0"], modifies=["self.stats.g_state"],
         ensures={"C20": ["unchanged_list(self.payloads)", "isnone(result) == (isnone(handle) or val(handle) >= len(self.payloads))",
                          "implies(not isnone(result), val(result) == val(handle))"]})
contract(CL, "CoordinateList.handleToPayload", types=dict(self="CoordinateList", handle="int"), returns="int", requires=[LEAF], modifies=[],
         ensures={"C20": ["result == handle"]}, note="leaf fiber: the payload handle is the coordinate handle")

contract(CF, "CompressionFormat.payloadToValue", mutant_skip=ACCOUNTING, cases=[dict(self="CoordinateList", payload="int"), dict(self="Uncompressed", payload="int")],
         returns="opt[U]", requires=["payload >= 0", "self.words_in_line >= 1", "len(self.coords) >= 0"], modifies=SIDE,
         ensures={"C20": ["unchanged_list(self.coords)", "unchanged_list(self.payloads)",
                          "isnone(result) == (payload >= len(self.payloads))",
                          "implies(not isnone(result), val(result) == self.payloads[payload])"]},
         loops={0: dict(types={"i": "int"}, modifies=SIDE, invariant=["unchanged_list(self.coords)", "unchanged_list(self.payloads)"])},
         note="a payload handle of a leaf fiber addresses the value stored at that index")

contract(CL, "CoordinateList.getSliceMaxLength", types=dict(self="CoordinateList"), returns="int", modifies=[], ensures={"C20": ["result == len(self.coords)"]})
contract(UC, "Uncompressed.getSliceMaxLength", types=dict(self="Uncompressed"), returns="opt[int]", modifies=[],
         ensures={"C20": ["iff(isnone(result), isnone(self.shape))", "implies(not isnone(result), val(result) == val(self.shape))"]})

NEXT_POST = [
    # exhausted: no position, past the end, or the requested number already returned
    "isnone(result) == (isnone(old(self.coords_handle)) or old(val(self.coords_handle)) >= %(n)s or "
    "(not isnone(self.num_to_ret) and val(self.num_to_ret) < old(self.num_ret_so_far)))",
    # otherwise the current handle is returned and the scan advances by exactly one position
    "implies(not isnone(result), val(result) == old(val(self.coords_handle)) and val(self.coords_handle) == val(result) + 1 "
    "and self.num_ret_so_far == old(self.num_ret_so_far) + 1)",
    "implies(isnone(result), self.num_ret_so_far == old(self.num_ret_so_far))"]
contract(CF, "CompressionFormat.nextInSlice", cases=[dict(self="CoordinateList"), dict(self="Uncompressed")], case_names=["C", "U"],
         returns="opt[int]", modifies=["self.coords_handle", "self.num_ret_so_far"],
         per_case={"C": dict(ensures=[x % dict(n="len(self.coords)") for x in NEXT_POST]),
                   "U": dict(requires=["not isnone(self.shape)"], ensures=[x % dict(n="val(self.shape)") for x in NEXT_POST])},
         ensures={"C20": ["unchanged_list(self.coords)", "unchanged_list(self.payloads)"]},
         requires=["len(self.coords) >= 0", "len(self.payloads) >= 0"],
         note="one step of scanning a C or U fiber: consecutive handles from the slice start to the end of the stored coordinates (C) / of the shape (U)")

contract(CF, "CompressionFormat.setupSlice",
         cases=[dict(self="CoordinateList", base="int", bound="opt[int]", max_num="opt[int]"), dict(self="Uncompressed", base="int", bound="opt[int]", max_num="opt[int]")],
         case_names=["C", "U"],
         requires=["len(self.payloads) >= 0"],
         modifies=SIDE + ["self.num_ret_so_far", "self.num_to_ret", "self.base", "self.bound", "self.coords_handle"],
         per_case={
             "C": dict(requires=["sorted_strict(self.coords)"], ensures=[
                 # the scan starts at the first stored coordinate not below the base (nowhere if there is none)
                 "isnone(self.coords_handle) == forall(lambda k: self.coords[k] < base, 0, len(self.coords))",
                 "implies(not isnone(self.coords_handle), 0 <= val(self.coords_handle) and val(self.coords_handle) < len(self.coords) and "
                 "self.coords[val(self.coords_handle)] >= base and forall(lambda k: self.coords[k] < base, 0, val(self.coords_handle)))"]),
             "U": dict(requires=["not isnone(self.shape)"], ensures=[
                 "isnone(self.coords_handle) == (base < 0 or base >= val(self.shape))",
                 "implies(not isnone(self.coords_handle), val(self.coords_handle) == base)"])},
         ensures={"C20": ["unchanged_list(self.coords)", "unchanged_list(self.payloads)", "self.num_ret_so_far == 0",
                          "iff(isnone(self.num_to_ret), isnone(max_num))", "implies(not isnone(max_num), val(self.num_to_ret) == val(max_num))"]},
         note="positions the scan of a C or U fiber at the slice base")

# ------------------------------------------------------------------ encoding a leaf fiber
TC = "fibertree/codec/tensor_codec.py"
source.extern_class("OutDict", {"__getitem__": "def __getitem__(self, key):"})
source.extern_class("OutList", {"append": "def append(self, x):", "extend": "def extend(self, xs):"})
field("OutList.g_state", "int")
contract(X, "OutDict.__getitem__", trusted=True, tier="T", types=dict(self="OutDict", key="str"), returns="OutList", modifies=[],
         note="the per-rank output arrays of the YAML dump (codec.get_output_dict): every key produced by get_keys is present")
contract(X, "OutList.append", trusted=True, tier="T", cases=[dict(self="OutList", x="U"), dict(self="OutList", x="int")], modifies=["self.g_state"])
contract(X, "OutList.extend", trusted=True, tier="T", cases=[dict(self="OutList", xs="list[int]"), dict(self="OutList", xs="list[U]")], modifies=["self.g_state"])
contract(TC, "Codec.get_keys", trusted=True, tier="T", types=dict(ranks="list[str]", depth="int"), returns="tuple[str,str]",
         requires=["0 <= depth < len(ranks)"], modifies=[], note="names of the two output arrays of a rank (string formatting)")
field("CompressionFormat.depth", "int")
field("CompressionFormat.fiber_occupancy", "int")
field("CompressionFormat.occupancy_so_far", "opt[int]")

contract(CL, "CoordinateList.encodeCoord", types=dict(prev_ind="int", ind="int"), returns="list[int]", modifies=[],
         ensures={"C20": ["fresh(result)", "len(result) == 1", "result[0] == ind"]}, note="explicit coordinates")

from .iterators import FMT_OK
A_FMT_OK = FMT_OK("a")
A_BOXES = "forall(lambda k: typeis(a.payloads[k], 'Payload'), 0, len(a.payloads))"
ENC_MOD = ["list:self.coords", "list:self.payloads", "self.depth", "self.is_leaf", "self.fiber_occupancy", "any:OutList.g_state",
           "a._saved_count", "a._saved_dist"]
contract(CL, "CoordinateList.encodeFiber", mutant_skip=["output["],
         types=dict(self="CoordinateList", a="Fiber", dim_len="int", codec="Codec", depth="int", ranks="list[str]", output="OutDict",
                    output_tensor="U", shape="opt[U]"),
         returns="int",
         requires=["depth == len(ranks) - 1", "depth >= 0", "wf(a)", "a.g_leaf", "not Metrics.collecting", A_FMT_OK, A_BOXES, "not (self.coords is self.payloads)",
                   "not (ranks is self.coords)", "not (ranks is self.payloads)"],
         modifies=ENC_MOD,
         ensures={"C20": [
             # the stored arrays are extended by exactly what the fiber presents: its coordinates (explicit) and the values in its boxes
             "result == len(final(_it0).seq)",
             "len(self.coords) == old(len(self.coords)) + result", "len(self.payloads) == old(len(self.payloads)) + result",
             "forall(lambda k: self.coords[old(len(self.coords)) + k] == final(_it0).seq[k][0], 0, result)",
             "forall(lambda k: self.payloads[old(len(self.payloads)) + k] == final(_it0).seq[k][1].value, 0, result)",
             "same_elems(self.coords, old(seq(self.coords)), 0, old(len(self.coords)))",
             "same_elems(self.payloads, old(seq(self.payloads)), 0, old(len(self.payloads)))",
             ]},
         loops={0: dict(types={"ind": "int", "val": "Payload|Fiber", "fiber_occupancy": "int", "prev_nz": "int"},
                        modifies=["list:self.coords", "list:self.payloads", "any:OutList.g_state"],
                        invariant=["fiber_occupancy == _i0", "depth == len(ranks) - 1",
                                   "len(self.coords) == old(len(self.coords)) + _i0", "len(self.payloads) == old(len(self.payloads)) + _i0",
                                   "forall(lambda k: self.coords[old(len(self.coords)) + k] == _it0.seq[k][0], 0, _i0)",
                                   "forall(lambda k: self.payloads[old(len(self.payloads)) + k] == _it0.seq[k][1].value, 0, _i0)",
                                   "same_elems(self.coords, old(seq(self.coords)), 0, old(len(self.coords)))",
                                   "same_elems(self.payloads, old(seq(self.payloads)), 0, old(len(self.payloads)))"])},
         note="leaf rank (depth == len(ranks) - 1); `_it0` is the sequence the fiber presents to `for ind, val in a` (Fiber.__iter__, tier B: strictly ascending "
              "coordinates, boxes at a leaf). The same values are appended to the YAML output arrays, which are external objects here")

source.extern_class("OutTensor", {"__getitem__": "def __getitem__(self, key):"})
source.extern_class("OutRank", {"__len__": "def __len__(self):"})
contract(X, "OutTensor.__getitem__", trusted=True, tier="T", types=dict(self="OutTensor", key="int"), returns="OutRank", modifies=[],
         note="the per-rank lists of encoded fibers the codec keeps (output_tensor)")
contract(X, "OutRank.__len__", trusted=True, tier="T", types=dict(self="OutRank"), returns="int", modifies=[], ensures=["result >= 0"])

contract("fibertree/core/fiber.py", "Fiber.__eq__", trusted=True, tier="T", cases=[dict(self="Fiber", other="int")], returns="bool", modifies=[],
         note="only met on a path the leaf-rank precondition excludes (getPayload's declared result type is Payload|Fiber): no clause is assumed about its value")

U_STORED = ("forall(lambda k: forall(lambda j: implies(a.coords[j] == k, self.payloads[old(len(self.payloads)) + k] == a.payloads[j].value), 0, len(a.coords)), 0, %s)")
U_ABSENT = ("forall(lambda k: implies(forall(lambda j: a.coords[j] != k, 0, len(a.coords)), self.payloads[old(len(self.payloads)) + k] == a.g_default), 0, %s)")
contract(UC, "Uncompressed.encodeFiber", mutant_skip=["output["],
         types=dict(self="Uncompressed", a="Fiber", dim_len="int", codec="Codec", depth="int", ranks="list[str]", output="OutDict",
                    output_tensor="OutTensor", shape="opt[U]"),
         returns="int",
         requires=["depth == len(ranks) - 1", "depth >= 0", "dim_len >= 0", "wf(a)", "a.g_leaf", "isnone(a._max_coord)", "not Metrics.collecting",
                   "forall(lambda k: typeis(a.payloads[k], 'Payload'), 0, len(a.payloads))",
                   "not (ranks is self.payloads)", "not (a.coords is self.payloads)", "not (a.payloads is self.payloads)"],
         modifies=["list:self.payloads", "self.shape", "self.count_payload_reads", "any:OutList.g_state"] + ["a._saved_pos", "a._saved_count", "a._saved_dist"],
         ensures={"C20": [
             # implicit positions: one payload entry per coordinate of the dimension, holding the stored value or the default
             "len(self.payloads) == old(len(self.payloads)) + dim_len",
             U_STORED % "dim_len", U_ABSENT % "dim_len",
             "same_elems(self.payloads, old(seq(self.payloads)), 0, old(len(self.payloads)))",
             "not isnone(self.shape) and val(self.shape) == dim_len",
             "unchanged_list(a.coords)", "unchanged_list(a.payloads)"]},
         loops={0: dict(types={"i": "int"}, modifies=["list:self.payloads", "any:OutList.g_state", "a._saved_pos", "a._saved_count", "a._saved_dist"],
                        invariant=["depth == len(ranks) - 1", "wf(a)", "isnone(a._max_coord)",
                                   "forall(lambda k: typeis(a.payloads[k], 'Payload'), 0, len(a.payloads))",
                                   "unchanged_list(a.coords)", "unchanged_list(a.payloads)",
                                   "len(self.payloads) == old(len(self.payloads)) + _i0",
                                   U_STORED % "_i0", U_ABSENT % "_i0",
                                   "same_elems(self.payloads, old(seq(self.payloads)), 0, old(len(self.payloads)))"])},
         note="leaf rank of an uncompressed fiber; reads go through Fiber.getPayload (proved, C03)")

SEQ = "_it0.seq"
B_SET = "forall(lambda k: self.coords[%s[k][0]] == 1, 0, %s)"
B_CLEAR = "forall(lambda i: implies(forall(lambda k: %s[k][0] != i, 0, %s), self.coords[i] == 0), 0, dim_len)"
B_PAY = "forall(lambda k: self.payloads[old(len(self.payloads)) + k] == %s[k][1].value, 0, %s)"
contract(BV, "Bitvector.encodeFiber", mutant_skip=["output["],
         types=dict(self="Bitvector", a="Fiber", dim_len="int", codec="Codec", depth="int", ranks="list[str]", output="OutDict",
                    output_tensor="OutTensor", shape="opt[U]"),
         returns="int",
         requires=["depth == len(ranks) - 1", "depth >= 0", "dim_len >= 0", "wf(a)", "a.g_leaf", "not Metrics.collecting", A_FMT_OK, A_BOXES,
                   "not (ranks is self.payloads)",
                   # coordinates are non-negative (a negative one would address the mask from its end)
                   "forall(lambda j: a.coords[j] >= 0, 0, len(a.coords))", "a.g_active0 >= 0"],
         raises={"IndexError": dict(when=None)},          # a presented coordinate at or beyond dim_len
         modifies=["self.coords", "list:self.payloads", "any:OutList.g_state", "a._saved_count", "a._saved_dist"],
         ensures={"C20": [
             "result == len(final(_it0).seq)",
             # the mask has one entry per coordinate of the dimension: 1 exactly at the coordinates the fiber presents
             "fresh(self.coords)", "len(self.coords) == dim_len",
             B_SET % ("final(_it0).seq", "result"), B_CLEAR % ("final(_it0).seq", "result"),
             # payloads are compressed: one entry per presented element, in order
             "len(self.payloads) == old(len(self.payloads)) + result", B_PAY % ("final(_it0).seq", "result"),
             "same_elems(self.payloads, old(seq(self.payloads)), 0, old(len(self.payloads)))"]},
         loops={0: dict(types={"ind": "int", "val": "Payload|Fiber", "fiber_occupancy": "int", "prev_nz": "int"},
                        modifies=["list:self.coords", "list:self.payloads", "any:OutList.g_state"],
                        invariant=["depth == len(ranks) - 1", "fiber_occupancy == _i0", "fresh(self.coords)", "len(self.coords) == dim_len",
                                   "not (self.coords is self.payloads)", "not (ranks is self.coords)",
                                   "forall(lambda k: 0 <= %s[k][0] and %s[k][0] < dim_len, 0, _i0)" % (SEQ, SEQ),
                                   B_SET % (SEQ, "_i0"), B_CLEAR % (SEQ, "_i0"),
                                   "len(self.payloads) == old(len(self.payloads)) + _i0", B_PAY % (SEQ, "_i0"),
                                   "same_elems(self.payloads, old(seq(self.payloads)), 0, old(len(self.payloads)))"])},
         note="leaf rank of a bit-vector fiber: mask over the dimension + compressed payloads")
