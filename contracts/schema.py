"""Heap schema: declared types of the fields the contracts talk about."""
from pyvc.contracts import field

# payload.py
field("Payload.value", "U")                 # the boxed value: opaque scalar under uninterpreted operators
# coord_payload.py
field("CoordPayload.coord", "int")
field("CoordPayload.payload", "Payload")    # element forms of C11: leaf elements (maybe_box boxes scalars)
# metrics.py -- class attributes are fields of the class singleton.  The nested dict
# Metrics.metrics["Compute"][k] is abstracted by three ghost counters (contract of incCount is tier T/B).
field("Metrics.collecting", "bool")
field("Metrics.c_payload_add", "int")
field("Metrics.c_payload_mul", "int")
field("Metrics.c_payload_update", "int")
