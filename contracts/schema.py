"""Heap schema: declared types of the fields the contracts talk about."""
from pyvc.contracts import field

# payload.py
field("Payload.value", "U")                 # the boxed value: opaque scalar under uninterpreted operators
# coord_payload.py
field("CoordPayload.coord", "int")
field("CoordPayload.payload", "Payload|Fiber")   # C11 element forms require a leaf element (box); traversal yields either
# metrics.py -- class attributes are fields of the class singleton.  The nested dict
# Metrics.metrics["Compute"][k] is abstracted by three ghost counters (contract of incCount is tier T/B).
field("Metrics.collecting", "bool")
field("Metrics.c_payload_add", "int")
field("Metrics.c_payload_mul", "int")
field("Metrics.c_payload_update", "int")

# fiber.py -- struct-of-lists representation and bookkeeping
field("Fiber.coords", "list[int]")                 # integer coordinates (tuple coordinates: bounded tier only)
field("Fiber.payloads", "list[Payload|Fiber]")     # leaf level: Payload boxes; interior level: Fibers (dynamic class tag)
field("Fiber._ordered", "bool")
field("Fiber._unique", "bool")
field("Fiber._saved_pos", "int")
field("Fiber._saved_count", "int")
field("Fiber._saved_dist", "int")
field("Fiber._is_lazy", "bool")
field("Fiber._max_coord", "opt[int]")
field("Fiber._owner", "opt[Rank]")
field("Fiber._rank_attrs", "RankAttrs")
field("Fiber._active_range", "opt[tuple[int,int]]")
# ghost abstractions of depth-recursive / rank-delegated notions (DESIGN section 3); their agreement with the
# real getDefault()/isEmpty() is established by the trusted/bounded contracts of those two functions
field("Fiber.g_default", "U")        # value of the leaf default this fiber's rank reports
field("Fiber.g_empty", "bool")       # this (sub-)fiber holds no non-default leaf
field("Fiber.g_leaf", "bool")        # payloads are Payload boxes (leaf rank) rather than Fibers
# rank.py
field("Rank.fibers", "list[Fiber]")
field("Rank.next_rank", "opt[Rank]")
field("Rank._attrs", "RankAttrs")

# classes defined inside the co-iteration operators: their class-level names capture the operands
for _c in ("and_iterator", "or_iterator", "xor_iterator", "sub_iterator", "lshift_iterator"):
    field(_c + ".a_fiber", "Fiber")
    field(_c + ".b_fiber", "Fiber")
field("lshift_iterator.spec_pos", "opt[int]")

# splitter helper classes (defined inside the split methods)
field("_SplitterUniform.fiber", "Fiber")
field("_SplitterUniform.step", "int")
field("_SplitterUniform.pre_halo", "int")
field("_SplitterUniform.post_halo", "int")
field("_SplitterUniform.relative", "bool")
field("_SplitterNonUniform_iter.fiber", "Fiber")
field("_SplitterNonUniform_iter.pre_halo", "int")
field("_SplitterNonUniform_iter.post_halo", "int")
field("_SplitterNonUniform_iter.relative", "bool")
field("_SplitterNonUniform_iter.splits", "list[int]")
field("Fiber.g_active0", "int")      # ghost: the active range getActive() reports (owner/attrs delegation abstracted)
field("Fiber.g_active1", "int")

# model/format.py
from pyvc.values import VMap
field("Format.tensor", "Tensor")
field("Format.spec", "map")
VMap.FIELDS["Format.spec"] = {"hbits": "int", "pbits": "int", "rhbits": "int", "fhbits": "int", "cbits": "int",
                              "format": "str", "layout": "str"}
field("Tensor.ranks", "list[Rank]")
field("Tensor.g_rank_ids", "list[str]")     # ghost: what getRankIds() returns (one id per rank, in order)
field("Fiber.g_shape1", "opt[int]")         # ghost: getShape(all_ranks=False) of this fiber (rank shape delegation)

# model/intersect.py
field("LeaderFollowerIntersector.num_intersects", "int")
field("LeaderFollowerIntersector.started", "bool")

# model/traffic.py: heap order of the cache model's replacement candidates
field("ListElem.next_access", "tuple[int,int]")     # next-use stamp over two loop ranks (lexicographic)
field("ListElem.pos", "int")
