"""Contracts for the split helpers in fibertree/core/fiber.py (C08 clause: relative coordinates and partition active range)."""
from pyvc.contracts import contract

F = "fibertree/core/fiber.py"

contract(F, "Fiber.getActive", verify=False, tier="T", types=dict(self="Fiber"), returns="tuple[int,int]", modifies=[],
         ensures=["result[0] == self.g_active0", "result[1] == self.g_active1"],
         note="active range through _active_range / rank shape delegation, abstracted by ghost fields")

ELEM_RET = "tuple[int,list[int],list[Payload|Fiber],tuple[int,int]]"

contract(F, "Fiber.splitUniform._SplitterUniform.build_elem",
         types=dict(self="_SplitterUniform", part="int", coords="list[int]", payloads="list[Payload|Fiber]"),
         locals=dict(relativeCoords="bool"), returns=ELEM_RET, modifies=[],
         ensures={"C08 C14": [
             "result[0] == part", "result[2] is payloads", "len(result[1]) == len(coords)",
             "forall(lambda k: result[1][k] == (coords[k] - part if relativeCoords else coords[k]), 0, len(coords))",
             "result[3][0] == (part if part >= self.fiber.g_active0 else self.fiber.g_active0)",
             "result[3][1] == (part + self.step if part + self.step <= self.fiber.g_active1 else self.fiber.g_active1)",
             "unchanged_list(coords)"]},
         note="relative coordinates are offsets from the partition start; the partition's active range is its interval clipped to the parent's")

contract(F, "Fiber._splitNonUniform_iter._SplitterNonUniform_iter.build_elem",
         types=dict(self="_SplitterNonUniform_iter", ind="int", coords="list[int]", payloads="list[Payload|Fiber]"),
         locals=dict(relative="bool"), returns=ELEM_RET, modifies=[],
         requires=["0 <= ind", "ind + 1 < len(self.splits)"],
         ensures={"C08 C14": [
             "result[0] == self.splits[ind]", "result[2] is payloads", "len(result[1]) == len(coords)",
             "forall(lambda k: result[1][k] == (coords[k] - self.splits[ind] if relative else coords[k]), 0, len(coords))",
             "result[3][0] == (self.splits[ind] if self.splits[ind] >= self.fiber.g_active0 else self.fiber.g_active0)",
             "result[3][1] == (self.splits[ind + 1] if self.splits[ind + 1] <= self.fiber.g_active1 else self.fiber.g_active1)"]},
         note="the sentinel float('inf') appended to splits is outside the integer model: proved for interior partitions (ind+1 a real boundary)")

for q, post in (("add_post_halo", "self.post_halo"), ("sub_pre_halo", "0 - self.pre_halo")):
    contract(F, "Fiber._splitNonUniform_iter._SplitterNonUniform_iter." + q,
             types=dict(self="_SplitterNonUniform_iter", coord="int"), returns="int", modifies=[],
             ensures={"C08": ["result == coord + (%s)" % post]})
