"""Contracts for fibertree/core/payload.py (C11, C15 exactness, C03 aliasing, C01 boxing)."""
from pyvc.contracts import contract

F = "fibertree/core/payload.py"
M = "fibertree/core/metrics.py"

COUNTERS = ["Metrics.c_payload_add", "Metrics.c_payload_mul", "Metrics.c_payload_update"]


def counts(add="0", mul="0", update="0"):
    """C15: the compute counters move by exactly the stated amounts when collecting, not at all otherwise."""
    return ["Metrics.c_payload_add == old(Metrics.c_payload_add) + ((%s) if old(Metrics.collecting) else 0)" % add,
            "Metrics.c_payload_mul == old(Metrics.c_payload_mul) + ((%s) if old(Metrics.collecting) else 0)" % mul,
            "Metrics.c_payload_update == old(Metrics.c_payload_update) + ((%s) if old(Metrics.collecting) else 0)" % update,
            "Metrics.collecting == old(Metrics.collecting)"]


# ---- trusted abstraction of the metrics dictionary (checked at run time by the bounded harness of C15)
contract(M, "Metrics.isCollecting", types=dict(cls="func"), returns="bool", inline=True)
contract(M, "Metrics.incCount", trusted=True,
         types=dict(cls="func", line="str", metric="str", inc="int"),
         raises={"AssertionError": dict(when="not Metrics.collecting")},
         modifies=COUNTERS,
         ensures=["Metrics.c_payload_add == old(Metrics.c_payload_add) + (inc if metric == 'payload_add' else 0)",
                  "Metrics.c_payload_mul == old(Metrics.c_payload_mul) + (inc if metric == 'payload_mul' else 0)",
                  "Metrics.c_payload_update == old(Metrics.c_payload_update) + (inc if metric == 'payload_update' else 0)"],
         note="abstraction of Metrics.metrics['Compute'][metric] by ghost counters; line is 'Compute' at every call site in payload.py")

# ---- construction and unboxing: executed from their real bodies wherever they are called
contract(F, "Payload.__new__", inline=True)
contract(F, "Payload.__init__", inline=True)
contract(F, "Payload.__setattr__", inline=True)
contract(F, "Payload.v", inline=True)

OPERANDS = [dict(self="Payload", other="Payload"), dict(self="Payload", other="U")]
OPNAMES = ["box", "scalar"]


def rhs(i):
    return "other.value" if i == 0 else "other"


# value-returning binary operators: a fresh singly-boxed result, operands untouched
BIN = {"__add__": ("+", dict(add="1")), "__sub__": ("-", {}), "__mul__": ("*", dict(mul="1")),
       "__truediv__": ("/", {}), "__and__": ("&", {}), "__or__": ("|", {}), "__lshift__": ("<<", {})}
for name, (op, cnt) in BIN.items():
    contract(F, "Payload." + name, cases=OPERANDS, case_names=OPNAMES, returns="Payload",
             modifies=COUNTERS,
             ensures={"C11": ["fresh(result)"],
                      "C15": counts(**cnt)},
             per_case={"box": dict(ensures=["result.value == old(self.value) %s old(other.value)" % op,
                                            "self.value == old(self.value) and other.value == old(other.value)"]),
                       "scalar": dict(ensures=["result.value == old(self.value) %s other" % op,
                                               "self.value == old(self.value)"])})

# reflected operators: scalar on the left, operand order preserved
RBIN = {"__radd__": ("+", dict(add="1")), "__rsub__": ("-", {}), "__rmul__": ("*", dict(mul="1")),
        "__rtruediv__": ("/", {})}
for name, (op, cnt) in RBIN.items():
    contract(F, "Payload." + name, types=dict(self="Payload", other="U"), returns="Payload",
             modifies=COUNTERS,
             ensures={"C11": ["fresh(result)", "result.value == other %s old(self.value)" % op,
                              "self.value == old(self.value)"],
                      "C15": counts(**cnt)})

# in-place operators: same box, updated value
IBIN = {"__iadd__": ("+", dict(update="1", add="(1 if old(self.value) != 0 else 0)")),
        "__isub__": ("-", {}),
        "__imul__": ("*", dict(mul="1", update="1")),
        "__itruediv__": ("/", {})}
for name, (op, cnt) in IBIN.items():
    contract(F, "Payload." + name, cases=OPERANDS, case_names=OPNAMES, returns="Payload",
             modifies=COUNTERS + ["self.value"],
             ensures={"C11 C03": ["result is self"], "C15": counts(**cnt)},
             per_case={"box": dict(ensures=["self.value == old(self.value) %s old(other.value)" % op,
                                            "implies(not (other is self), other.value == old(other.value))"]),
                       "scalar": dict(ensures=["self.value == old(self.value) %s other" % op])})

contract(F, "Payload.__ilshift__", cases=OPERANDS, case_names=OPNAMES, returns="Payload",
         modifies=COUNTERS + ["self.value"],
         ensures={"C11 C03": ["result is self"], "C15": counts(update="1")},
         per_case={"box": dict(ensures=["self.value == old(other.value)"]),
                   "scalar": dict(ensures=["self.value == other"])})

# comparisons return the raw truth value of the same comparison on the underlying values
CMP = {"__eq__": "==", "__ne__": "!=", "__lt__": "<", "__le__": "<=", "__gt__": ">", "__ge__": ">="}
for name, op in CMP.items():
    contract(F, "Payload." + name, cases=OPERANDS, case_names=OPNAMES, returns="bool", modifies=[],
             ensures={"C11": []},
             per_case={"box": dict(ensures=["result == (self.value %s other.value)" % op]),
                       "scalar": dict(ensures=["result == (self.value %s other)" % op])})

# static helpers
contract(F, "Payload.get", cases=[dict(payload="Payload"), dict(payload="int"), dict(payload="none"),
                                   dict(payload="opt[int]"), dict(payload="U")],
         case_names=["box", "int", "none", "optint", "scalar"],
         returns=["U", "int", "none", "opt[int]", "U"], modifies=[],
         per_case={"box": dict(ensures=["result == payload.value"]),
                   "scalar": dict(ensures=["result == payload"]),
                   "int": dict(ensures=["result == payload"]),
                   "optint": dict(ensures=["result == payload"])})

contract(F, "Payload.maybe_box", cases=[dict(value="U"), dict(value="Payload"), dict(value="Fiber"), dict(value="opt[U]"),
                                         dict(value="Payload|Fiber")],
         case_names=["scalar", "box", "fiber", "optscalar", "either"],
         returns=["Payload", "Payload", "Fiber", "opt[Payload]", "Payload|Fiber"], modifies=[],
         ensures={"C01": []},
         per_case={"scalar": dict(ensures=["fresh(result)", "result.value == value"]),
                   "box": dict(ensures=["result is value", "value.value == old(value.value)"]),
                   "fiber": dict(ensures=["result is value"]),
                   "either": dict(ensures=["result is value"]),
                   "optscalar": dict(ensures=["isnone(result) == isnone(value)",
                                              "implies(not isnone(value), fresh(val(result)) and val(result).value == val(value))"])})

contract(F, "Payload.isEmpty",
         cases=[dict(p="Payload", default="U"), dict(p="Payload"), dict(p="Payload", default="Payload"),
                dict(p="Payload|Fiber", default="Payload")],
         case_names=["box", "box_default0", "box_boxdefault", "either"],
         returns="bool", modifies=[],
         ensures={"C12 C04 C07": []},
         per_case={"box": dict(ensures=["result == (p.value == default)"]),
                   "box_default0": dict(ensures=["result == (p.value == 0)"]),
                   "box_boxdefault": dict(ensures=["result == (p.value == default.value)"]),
                   "either": dict(ensures=["result == pempty(p, default)"])})

contract(F, "Payload.is_payload", cases=[dict(payload="Payload|Fiber"), dict(payload="Payload"), dict(payload="Fiber"), dict(payload="U")],
         case_names=["either", "box", "fiber", "scalar"], returns="bool", modifies=[],
         per_case={"either": dict(ensures=["result"]), "box": dict(ensures=["result"]), "fiber": dict(ensures=["result"]),
                   "scalar": dict(ensures=["not result"])},
         note="imports Fiber locally; isinstance against (Payload, Fiber)")
