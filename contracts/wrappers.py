"""Traversal wrappers and the format dispatch of Fiber.__iter__ (C07): proved from the contracts of iterRange / iterRangeShape."""
from pyvc.contracts import contract, field, REGISTRY
from pyvc.values import parse_ty
from .iterators import F, ELEM, BOOK, QUAL

FB = "fibertree/core/fiber.py"
RK = "fibertree/core/rank.py"
RA = "fibertree/core/rank_attrs.py"
field("RankAttrs._fmt", "str")
field("RankAttrs._id", "str")
for f, q in ((FB, "Fiber.getRankAttrs"), (RK, "Rank.getFormat"), (RA, "RankAttrs.getFormat"), (RA, "RankAttrs.getId")):
    contract(f, q, inline=True)

BOOK_SAME = "self._saved_pos == old(self._saved_pos)"
ALLOCD = "forall(lambda k: allocated(result.seq[k][1]), 0, len(result.seq))"
ASC = "forall(lambda a, b: implies(0 <= a and a < b and b < len(result.seq), result.seq[a][0] < result.seq[b][0]))"
STORED = ("forall(lambda k: exists(lambda j: 0 <= j < len(self.coords) and self.coords[j] == result.seq[k][0] and self.payloads[j] is result.seq[k][1]), "
          "0, len(result.seq))")

NONEMPTY = "forall(lambda k: not pempty(result.seq[k][1], self.g_default), 0, len(result.seq))"
COMPLETE = ("forall(lambda j: implies(not pempty(self.payloads[j], self.g_default), exists(lambda k: 0 <= k < len(result.seq) and "
            "result.seq[k][0] == self.coords[j] and result.seq[k][1] is self.payloads[j])), 0, len(self.coords))")

contract(F, "iterOccupancy", cases=[dict(self="Fiber"), dict(self="Fiber", tick="bool", start_pos="opt[int]")], case_names=["plain", "start_pos"],
         returns="iter[%s]" % ELEM,
         requires=["wf(self)", "not Metrics.collecting"],
         per_case={"start_pos": dict(requires=[
             # a valid shortcut: nothing before it would have been yielded
             "isnone(start_pos) or (0 <= val(start_pos) < len(self.coords) and forall(lambda j: pempty(self.payloads[j], self.g_default), 0, val(start_pos)))"])},
         modifies=BOOK,
         ensures={"C07": [ASC, STORED, NONEMPTY, COMPLETE, ALLOCD, "unchanged_list(self.coords)", "unchanged_list(self.payloads)",
                          "implies(isnone(start_pos), " + BOOK_SAME + ")"]},
         note="iterRange(None, None): every stored non-empty element, ascending")

BOXES = "forall(lambda k: typeis(self.payloads[k], 'Payload'), 0, len(self.payloads))"
LEAFBOX = ["isnone(self._max_coord)", "self.g_leaf", BOXES]
IN_ACTIVE = "forall(lambda k: result.seq[k][0] == self.g_active0 + k, 0, len(result.seq))"
contract(F, "iterActiveShape", cases=[dict(self="Fiber"), dict(self="Fiber", tick="bool")], case_names=["plain", "tick"],
         returns="iter[%s]" % ELEM,
         requires=["wf(self)", "not Metrics.collecting"] + LEAFBOX,
         modifies=BOOK,
         ensures={"C07": [IN_ACTIVE, "len(result.seq) == (0 if self.g_active1 <= self.g_active0 else self.g_active1 - self.g_active0)",
                          "forall(lambda k: typeis(result.seq[k][1], 'Payload'), 0, len(result.seq))", ALLOCD,
                          "unchanged_list(self.coords)", "unchanged_list(self.payloads)", BOOK_SAME]},
         note="iterRangeShape over the active range (ghost g_active0/1 = getActive(), tier T): every coordinate of the range, stored box or fresh default")

# the format a fiber is traversed in: its owning rank's, else its own rank attributes'
FMT = "(val(self._owner)._attrs._fmt if not isnone(self._owner) else self._rank_attrs._fmt)"
contract(F, "__iter__",
         cases=[dict(self="Fiber"), dict(self="Fiber", tick="bool")], case_names=["plain", "tick"],
         returns="iter[%s]" % ELEM,
         requires=["wf(self)", "not Metrics.collecting",
                   # compressed: any rank; uncompressed: leaf rank holding boxes (the shape walk makes default boxes)
                   "%s == 'C' or (%s == 'U' and %s)" % (FMT, FMT, " and ".join("(%s)" % x for x in LEAFBOX))],
         modifies=["self._saved_count", "self._saved_dist"],
         ensures={"C07 C04": [
             ASC, ALLOCD,
             "implies(self.g_leaf and %s, forall(lambda k: typeis(result.seq[k][1], 'Payload'), 0, len(result.seq)))" % BOXES,
             # a presented coordinate is a stored one (compressed) or lies in the active range (uncompressed formats walk the range)
             "forall(lambda k: member(result.seq[k][0], self.coords) or (self.g_active0 <= result.seq[k][0] and result.seq[k][0] < self.g_active1), 0, len(result.seq))",
             "unchanged_list(self.coords)", "unchanged_list(self.payloads)",
             # a compressed rank presents exactly its stored non-empty elements, with their own payload objects
             "implies(%s == 'C', %s)" % (FMT, STORED), "implies(%s == 'C', %s)" % (FMT, NONEMPTY), "implies(%s == 'C', %s)" % (FMT, COMPLETE)]},
         note="format dispatch proved: 'C' -> iterOccupancy (iterRange(None, None), proved), 'U' -> iterActiveShape (iterRangeShape over getActive(), proved)")

# ---------------------------------------------------------------- counting (C12), leaf rank
PL = "fibertree/core/payload.py"
contract(PL, "Payload.contains", inline=True)
contract(FB, "Fiber.countValues", cases=[dict(self="Fiber"), dict(self="Fiber", recursive="bool")], case_names=["plain", "recursive"],
         returns="int", narrow={"p": "Payload"},
         ghost={"C": "count_nonempty(self)"},
         requires=["wf(self)", "self.g_leaf", BOXES],
         modifies=[],
         ensures={"C12": ["result == C(len(self.payloads))", "0 <= result", "unchanged_list(self.coords)", "unchanged_list(self.payloads)"]},
         loops={0: dict(types={"count": "int"}, modifies=[], invariant=["count == C(_i0)", "0 <= count"])},
         note="leaf rank: the number of boxes whose value differs from the fiber's default (C is the defined count); deeper ranks recurse on this contract (bounded part)")

# ---------------------------------------------------------------- flattening: the coordinate map (C09), integer coordinates
contract(FB, "Fiber._flattenCoords",
         cases=[dict(c1="int", c0="int", style="=tuple"), dict(c1="int", c0="int", style="=pair"), dict(c1="int", c0="int", style="=absolute"),
                dict(c1="int", c0="int", style="=relative"), dict(c1="int", c0="int", style="=linear", shape="opt[int]")],
         case_names=["tuple", "pair", "absolute", "relative", "linear"],
         returns=["tuple[int,int]", "tuple[int,int]", "int", "int", "int"], modifies=[],
         per_case={"tuple": dict(ensures=["result[0] == c1 and result[1] == c0"]),
                   "pair": dict(ensures=["result[0] == c1 and result[1] == c0"]),
                   "absolute": dict(ensures=["result == c0"]),
                   "relative": dict(ensures=["result == c1 + c0"]),
                   "linear": dict(requires=["not isnone(shape)"], ensures=["result == c1 * val(shape) + c0"])},
         ensures={"C09": []},
         note="the stated combination of an upper and a lower integer coordinate for each flattening style (tuple coordinates: bounded part)")

# ---------------------------------------------------------------- dictionary form of a payload (C13), leaf values
contract(PL, "Payload.payload2dict", cases=[dict(payload="Payload"), dict(payload="U")], case_names=["box", "scalar"],
         returns=["U", "U"], modifies=[],
         per_case={"box": dict(ensures=["result == payload.value"]), "scalar": dict(ensures=["result == payload"])},
         ensures={"C13": []},
         note="the dictionary form of a leaf payload is its bare value (sub-fibers recurse through fiber2dict: bounded part)")

# ---------------------------------------------------------------- fiber *= scalar (C11), leaf rank, compressed traversal
from .payload import COUNTERS
from .iterators import FMT_OK
DISTINCT_BOXES = "forall(lambda i, j: implies(i < j, not (self.payloads[i] is self.payloads[j])), 0, len(self.payloads))"
SCALED = ("forall(lambda j: self.payloads[j].value == (old_value(self.payloads[j]) * other "
          "if old_value(self.payloads[j]) != self.g_default else old_value(self.payloads[j])), 0, len(self.payloads))")
contract(FB, "Fiber.__imul__", cases=[dict(self="Fiber", other="U")], case_names=["scalar"], returns="Fiber",
         requires=["wf(self)", "not Metrics.collecting", "self.g_leaf", BOXES, DISTINCT_BOXES, "%s == 'C'" % FMT],
         modifies=COUNTERS + ["any:Payload.value", "self._saved_count", "self._saved_dist"],
         ensures={"C11": [
             "result is self",
             # every element keeps its coordinate and its box; every non-empty box holds the product, empty (default-valued) ones are left alone
             "unchanged_list(self.coords)", "unchanged_list(self.payloads)", SCALED]},
         loops={2: dict(types={"p": "Payload|Fiber"}, modifies=COUNTERS + ["any:Payload.value"],
                        invariant=[
                            "unchanged_list(self.coords)", "unchanged_list(self.payloads)", BOXES, DISTINCT_BOXES,
                            "forall(lambda a, b: implies(0 <= a and a < b and b < len(_it2.seq), _it2.seq[a][0] < _it2.seq[b][0]))",
                            "forall(lambda k: exists(lambda j: 0 <= j < len(self.coords) and self.coords[j] == _it2.seq[k][0] and self.payloads[j] is _it2.seq[k][1]), 0, len(_it2.seq))",
                            "forall(lambda k: old_value(_it2.seq[k][1]) != self.g_default, 0, len(_it2.seq))",
                            "forall(lambda j: implies(old_value(self.payloads[j]) != self.g_default, exists(lambda k: 0 <= k < len(_it2.seq) and "
                            "_it2.seq[k][0] == self.coords[j] and _it2.seq[k][1] is self.payloads[j])), 0, len(self.coords))",
                            # visited boxes hold the product, all others still hold their old value
                            "forall(lambda k: _it2.seq[k][1].value == old_value(_it2.seq[k][1]) * other, 0, _i2)",
                            "forall(lambda j: implies(forall(lambda k: not (_it2.seq[k][1] is self.payloads[j]), 0, _i2), "
                            "self.payloads[j].value == old_value(self.payloads[j])), 0, len(self.payloads))"])},
         narrow={"p": "Payload"},
         note="scalar operand, leaf rank traversed compressed: `for _, p in self: p *= other` (fiber operands and uncompressed ranks: bounded part)")

# ---------------------------------------------------------------- tensor-level point access delegates to the root fiber (C03), 1-D tensors
TS = "fibertree/core/tensor.py"
field("Tensor._root", "Payload|Fiber")
contract(TS, "Tensor.getRoot", inline=True)
R = "self._root"
ROOT_REQ = ["typeis(%s, 'Fiber')" % R, "len(self.ranks) > 0", "len(self.ranks[0].fibers) > 0", "%s is self.ranks[0].fibers[0]" % R,
            "wf(%s)" % R, "isnone(%s._max_coord)" % R, "%s.g_leaf" % R, "not Metrics.collecting",
            "forall(lambda k: typeis(%s.payloads[k], 'Payload'), 0, len(%s.payloads))" % (R, R)]
contract(TS, "Tensor.getPayload", cases=[{"self": "Tensor", "*args": "tuple[int]"}], case_names=["point"], returns="Payload|Fiber",
         ghost={"coord": "args[0]"},
         requires=ROOT_REQ, modifies=["%s._saved_pos" % R, "%s._saved_count" % R, "%s._saved_dist" % R],
         ensures={"C03 C10": [
             "forall(lambda k: implies(%s.coords[k] == coord, result is %s.payloads[k]), 0, len(%s.coords))" % (R, R, R),
             "implies(forall(lambda k: %s.coords[k] != coord, 0, len(%s.coords)), fresh(result) and typeis(result, 'Payload') and result.value == %s.g_default)" % (R, R, R),
             "unchanged_list(%s.coords)" % R, "unchanged_list(%s.payloads)" % R]},
         note="a 1-D tensor answers a point read exactly as its root fiber does (deeper tensors: bounded part)")
contract(TS, "Tensor.getPayloadRef", cases=[{"self": "Tensor", "*args": "tuple[int]"}], case_names=["point"], returns="Payload|Fiber",
         ghost={"coord": "args[0]"},
         requires=ROOT_REQ, modifies=["%s._saved_pos" % R, "%s._saved_count" % R, "%s._saved_dist" % R, "list:%s.coords" % R, "list:%s.payloads" % R],
         ensures={"C03 C01": [
             "wf(%s)" % R,
             "exists(lambda r: 0 <= r < len(%s.coords) and %s.coords[r] == coord and result is %s.payloads[r])" % (R, R, R),
             "implies(old(member(coord, %s.coords)), unchanged_list(%s.coords) and unchanged_list(%s.payloads))" % (R, R, R),
             "implies(not old(member(coord, %s.coords)), len(%s.coords) == old(len(%s.coords)) + 1 and fresh(result) and result.value == %s.g_default)" % (R, R, R, R)]},
         note="a 1-D tensor hands out the reference its root fiber does")

# ---------------------------------------------------------------- remaining read-only traversal wrappers (C07)
IN_ACT = "self.g_active0 <= self.coords[%(j)s] and self.coords[%(j)s] < self.g_active1 and not pempty(self.payloads[%(j)s], self.g_default)"
contract(F, "iterActive", cases=[dict(self="Fiber"), dict(self="Fiber", tick="bool", start_pos="opt[int]")], case_names=["plain", "start_pos"],
         returns="iter[%s]" % ELEM,
         requires=["wf(self)", "not Metrics.collecting"],
         per_case={"start_pos": dict(requires=[
             "isnone(start_pos) or (0 <= val(start_pos) < len(self.coords) and forall(lambda j: not (" + IN_ACT % dict(j="j") + "), 0, val(start_pos)))"])},
         modifies=BOOK,
         ensures={"C07": [
             ASC, "unchanged_list(self.coords)", "unchanged_list(self.payloads)",
             # exactly the stored non-empty elements inside the active range, with their own payload objects
             "forall(lambda k: exists(lambda j: 0 <= j < len(self.coords) and self.coords[j] == result.seq[k][0] and self.payloads[j] is result.seq[k][1] and "
             + IN_ACT % dict(j="j") + "), 0, len(result.seq))",
             "forall(lambda j: implies(" + IN_ACT % dict(j="j") + ", exists(lambda k: 0 <= k < len(result.seq) and result.seq[k][0] == self.coords[j] and "
             "result.seq[k][1] is self.payloads[j])), 0, len(self.coords))"]},
         note="iterRange over getActive() (ghost g_active0/1, tier T)")

contract(F, "iterShape", cases=[dict(self="Fiber"), dict(self="Fiber", tick="bool")], case_names=["plain", "tick"],
         returns="iter[%s]" % ELEM,
         requires=["wf(self)", "not Metrics.collecting", "not isnone(self.g_shape1)"] + LEAFBOX,
         modifies=BOOK,
         ensures={"C07": ["forall(lambda k: result.seq[k][0] == k, 0, len(result.seq))",
                          "len(result.seq) == (0 if val(self.g_shape1) <= 0 else val(self.g_shape1))",
                          "forall(lambda k: typeis(result.seq[k][1], 'Payload'), 0, len(result.seq))",
                          "forall(lambda k: forall(lambda j: implies(self.coords[j] == k, result.seq[k][1] is self.payloads[j]), 0, len(self.coords)), 0, len(result.seq))",
                          "forall(lambda k: implies(forall(lambda j: self.coords[j] != k, 0, len(self.coords)), result.seq[k][1].value == self.g_default), 0, len(result.seq))",
                          "unchanged_list(self.coords)", "unchanged_list(self.payloads)", BOOK_SAME]},
         note="iterRangeShape(0, getShape(all_ranks=False)) (ghost g_shape1, tier T): every coordinate of the shape with the stored box or a default")

contract(TS, "Tensor.countValues", types=dict(self="Tensor"), returns="int",
         ghost={"C": "count_nonempty(self._root)"},
         requires=["typeis(%s, 'Fiber')" % R, "len(self.ranks) > 0", "len(self.ranks[0].fibers) > 0", "%s is self.ranks[0].fibers[0]" % R,
                   "wf(%s)" % R, "%s.g_leaf" % R, "forall(lambda k: typeis(%s.payloads[k], 'Payload'), 0, len(%s.payloads))" % (R, R)],
         modifies=[],
         ensures={"C12": ["result == C(len(%s.payloads))" % R]},
         note="a 1-D tensor counts exactly what its root fiber counts")

# ---------------------------------------------------------------- positional read f[k] (C03 / C10)
contract(FB, "Fiber.__getitem__", cases=[dict(self="Fiber", keys="int")], case_names=["position"], returns="CoordPayload",
         requires=["wf(self)"],
         raises={"IndexError": dict(when="keys >= len(self.coords) or keys < -len(self.coords)",
                                    ensures={"C10": ["unchanged_list(self.coords)", "unchanged_list(self.payloads)"]})},
         modifies=[],
         ensures={"C03 C10": [
             "fresh(result)",
             "result.coord == self.coords[keys if keys >= 0 else keys + len(self.coords)]",
             "result.payload is self.payloads[keys if keys >= 0 else keys + len(self.coords)]",
             "unchanged_list(self.coords)", "unchanged_list(self.payloads)"]},
         note="an integer position (negative positions count from the end) addresses the stored coordinate and the stored payload object itself")

contract(FB, "Fiber.minCoord", types=dict(self="Fiber"), returns="opt[int]", requires=["wf(self)"], modifies=[],
         ensures={"C03": ["isnone(result) == (len(self.coords) == 0)",
                          "implies(len(self.coords) > 0, val(result) == self.coords[0])"]},
         note="the smallest stored coordinate (the first one of an ordered fiber)")
