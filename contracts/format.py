"""Contracts for fibertree/model/format.py (C18: footprints add up from the tree exactly)."""
import z3

from pyvc.contracts import contract, spec_fn
from pyvc.values import VFunc, VInt, parse_ty, I, StrSort, fresh_name
from pyvc.state import State, list_arrays, list_len, map_get
from pyvc.values import VRow

F = "fibertree/model/format.py"
T = "fibertree/core/tensor.py"
FB = "fibertree/core/fiber.py"

contract(T, "Tensor.getRankIds", verify=False, tier="T", types=dict(self="Tensor"), returns="list[str]", modifies=[],
         ensures=["result is self.g_rank_ids", "len(result) == len(self.ranks)"],
         note="builds the id list from the ranks (comprehension over Rank.getId): abstracted by a ghost list")

# Fiber.getShape(all_ranks=False): rank-shape delegation abstracted by the ghost field g_shape1
from pyvc.contracts import REGISTRY
_gs = REGISTRY[(FB, "Fiber.getShape")]
_gs.cases.append({k: parse_ty(v) for k, v in dict(self="Fiber", all_ranks="bool").items()})
_gs.case_names.append("all_ranks_only")
_gs.returns.append(parse_ty("opt[int]"))
_gs.ensures.append(("", "implies(not all_ranks, result == self.g_shape1)"))

FILLED = "has_row(self.spec, %s) and row_filled(self.spec[%s], 'rhbits', 'fhbits', 'cbits', 'pbits', 'format', 'layout')"


def fp(fiber, rank):
    """footprint of one fiber by the statement: header + (coordinate + payload bits) x (occupancy if compressed else shape)"""
    return ("(self.spec[%(r)s]['fhbits'] + (self.spec[%(r)s]['cbits'] + self.spec[%(r)s]['pbits']) * "
            "(len(%(f)s.coords) if self.spec[%(r)s]['format'] == 'C' else val(%(f)s.g_shape1)))" % dict(f=fiber, r=rank))


contract(F, "Format._getFiberFootprint", types=dict(self="Format", rank="str", fiber="Fiber"), returns="int", modifies=[],
         requires=[FILLED % ("rank", "rank"), "not fiber._is_lazy",
                   "implies(self.spec[rank]['format'] != 'C', not isnone(fiber.g_shape1))"],
         ensures={"C18": ["result == " + fp("fiber", "rank")]})

contract(F, "Format.getElem", types=dict(self="Format", rank="str", type_="str"), returns="int", modifies=[],
         requires=[FILLED % ("rank", "rank")],
         raises={"AssertionError": dict(when="type_ != 'coord' and type_ != 'payload' and type_ != 'elem'")},
         ensures={"C18": ["implies(type_ == 'coord', result == self.spec[rank]['cbits'])",
                          "implies(type_ == 'payload', result == self.spec[rank]['pbits'])",
                          "implies(type_ == 'elem', result == self.spec[rank]['cbits'] + self.spec[rank]['pbits'])"]})

contract(F, "Format.getRoot", types=dict(self="Format"), returns="int", modifies=[],
         requires=["has_row(self.spec, 'root') and row_filled(self.spec['root'], 'hbits', 'pbits')"],
         ensures={"C18": ["result == self.spec['root']['hbits'] + self.spec['root']['pbits']"]})


@spec_fn("prefix_sum_fn")
def prefix_sum_fn(ex, se, fmt, rank_id, fibers):
    """S with S(0) = 0 and S(j+1) = S(j) + footprint(fibers[j]): the sum of the fibers' footprints, as a defined function."""
    S = z3.Function(fresh_name("S"), I, I)
    tmp = State()
    tmp.heap = se.st.heap
    tmp.cells = se.st.cells
    arr = list_arrays(tmp, fibers)[0]
    j = z3.Int(fresh_name("j"))
    m = ex.sp_load(se, fmt.t, "Format", "spec")
    row = VRow(m, rank_id.t)
    fh, cb, pb = (map_get(tmp, row, x).t for x in ("fhbits", "cbits", "pbits"))
    fm = map_get(tmp, row, "format").t
    from pyvc.values import VStr
    fref = arr[j]
    coords = ex.sp_load(se, fref, "Fiber", "coords")
    n = z3.If(fm == VStr("C").t, list_len(tmp, coords), ex.sp_load(se, fref, "Fiber", "g_shape1").val.t)
    se.facts.append(S(0) == 0)
    se.facts.append(z3.ForAll([j], z3.Implies(j >= 0, S(j + 1) == S(j) + fh + (cb + pb) * n), patterns=[S(j + 1)]))
    return VFunc("uf", name="S", argtys=[parse_ty("int")], retty=parse_ty("int"), fns=[S])


RANK_FP = z3.Function("rank_footprint", StrSort, I)


@spec_fn("rank_fp")
def rank_fp(ex, se, rank_id):
    """The footprint of a rank, as a named quantity (defined by getRank's contract, used by getTensor)."""
    return VInt(RANK_FP(rank_id.t))


RANK_OF = "self.tensor.ranks[idx]"
contract(F, "Format.getRank", types=dict(self="Format", rank_id="str"), returns="int", modifies=[],
         ghost={"idx": "index_of(self.tensor.g_rank_ids, rank_id)", "S": "prefix_sum_fn(self, rank_id, self.tensor.ranks[index_of(self.tensor.g_rank_ids, rank_id)].fibers)"},
         requires=[FILLED % ("rank_id", "rank_id"),
                   "len(self.tensor.g_rank_ids) == len(self.tensor.ranks)",
                   "member(rank_id, self.tensor.g_rank_ids)",
                   "forall(lambda k: not " + RANK_OF + ".fibers[k]._is_lazy, 0, len(" + RANK_OF + ".fibers))",
                   "forall(lambda k: implies(self.spec[rank_id]['format'] != 'C', not isnone(" + RANK_OF + ".fibers[k].g_shape1)), 0, len(" + RANK_OF + ".fibers))"],
         defines=["rank_fp(rank_id) == self.spec[rank_id]['rhbits'] + S(len(" + RANK_OF + ".fibers))"],
         ensures={"C18": ["result == self.spec[rank_id]['rhbits'] + S(len(" + RANK_OF + ".fibers))",
                          "result == rank_fp(rank_id)"]},
         loops={0: dict(invariant=["total == self.spec[rank_id]['rhbits'] + S(_i0)", "rank is " + RANK_OF])},
         note="S is the defined prefix sum of the per-fiber footprints over rank.getFibers(); by C02 (RB) that list is exactly the live fibers of the depth")


@spec_fn("rank_sum_fn")
def rank_sum_fn(ex, se, ids):
    """R with R(0) = 0 and R(j+1) = R(j) + rank_fp(ids[j])."""
    R = z3.Function(fresh_name("R"), I, I)
    tmp = State()
    tmp.heap = se.st.heap
    arr = list_arrays(tmp, ids)[0]
    j = z3.Int(fresh_name("j"))
    se.facts.append(R(0) == 0)
    se.facts.append(z3.ForAll([j], z3.Implies(j >= 0, R(j + 1) == R(j) + RANK_FP(arr[j])), patterns=[R(j + 1)]))
    return VFunc("uf", name="R", argtys=[parse_ty("int")], retty=parse_ty("int"), fns=[R])


# getRank as seen by callers: its value is the named quantity rank_fp(rank_id) (proved equal to header + sum of fibers above)
contract(F, "Format.getTensor", types=dict(self="Format"), returns="int", modifies=[],
         ghost={"R": "rank_sum_fn(self.tensor.g_rank_ids)"},
         requires=["has_row(self.spec, 'root') and row_filled(self.spec['root'], 'hbits', 'pbits')",
                   "len(self.tensor.g_rank_ids) == len(self.tensor.ranks)",
                   "forall(lambda j: " + (FILLED % ("self.tensor.g_rank_ids[j]", "self.tensor.g_rank_ids[j]")) + ", 0, len(self.tensor.g_rank_ids))",
                   # the per-rank preconditions of getRank, for every rank
                   "forall(lambda j: forall(lambda k: not self.tensor.ranks[j].fibers[k]._is_lazy, 0, len(self.tensor.ranks[j].fibers)), 0, len(self.tensor.ranks))",
                   "forall(lambda j: forall(lambda k: not isnone(self.tensor.ranks[j].fibers[k].g_shape1), 0, len(self.tensor.ranks[j].fibers)), 0, len(self.tensor.ranks))",
                   "forall(lambda a, b: implies(0 <= a and a < b and b < len(self.tensor.g_rank_ids), self.tensor.g_rank_ids[a] != self.tensor.g_rank_ids[b]))"],
         ensures={"C18": ["result == self.spec['root']['hbits'] + self.spec['root']['pbits'] + R(len(self.tensor.g_rank_ids))"]},
         loops={0: dict(invariant=["total == self.spec['root']['hbits'] + self.spec['root']['pbits'] + R(_i0)"])},
         note="the tensor's footprint is the root's plus the sum over all ranks of rank_fp (each proved to be header + sum of its fibers)")

FILL_MOD = ["map:Format.spec"]
for _f in ("hbits", "pbits", "rhbits", "fhbits", "cbits"):
    pass
contract(F, "Format._checkFillIntField",
         cases=[dict(self="Format", rank="str", field="=" + f_) for f_ in ("hbits", "pbits", "rhbits", "fhbits", "cbits")],
         case_names=["hbits", "pbits", "rhbits", "fhbits", "cbits"],
         requires=["has_row(self.spec, rank)"], modifies=FILL_MOD,
         ensures={"C18": ["has_field(self.spec[rank], field)",
                          "self.spec[rank][field] == (old(self.spec[rank][field]) if old(has_field(self.spec[rank], field)) else 0)",
                          "map_unchanged_except(self.spec, rank, field)"]})
contract(F, "Format._checkFillStrField",
         cases=[dict(self="Format", rank="str", field="=format", default="=C", options="list[str]"),
                dict(self="Format", rank="str", field="=layout", default="=contiguous", options="list[str]")],
         case_names=["format", "layout"],
         requires=["has_row(self.spec, rank)"], modifies=FILL_MOD,
         raises={"AssertionError": dict(when="True")},
         ensures={"C18": ["has_field(self.spec[rank], field)",
                          "self.spec[rank][field] == (old(self.spec[rank][field]) if old(has_field(self.spec[rank], field)) else default)",
                          "map_unchanged_except(self.spec, rank, field)"]})

INT_F = ("rhbits", "fhbits", "cbits", "pbits")


def kept_or_default(row, old_row, fld, dflt):
    return ("(%(row)s['%(f)s'] == (old(%(orow)s['%(f)s']) if old(has_row(self.spec, %(k)s) and has_field(%(orow)s, '%(f)s')) else %(d)s))"
            % dict(row=row, orow=old_row, f=fld, d=dflt, k=row[len("self.spec["):-1]))


def rank_post(key):
    row = "self.spec[%s]" % key
    cl = ["has_row(self.spec, %s)" % key, "row_filled(%s, 'rhbits', 'fhbits', 'cbits', 'pbits', 'format', 'layout')" % row]
    for f_ in INT_F:
        cl.append(kept_or_default(row, row, f_, "0"))
    cl.append(kept_or_default(row, row, "format", "'C'"))
    cl.append(kept_or_default(row, row, "layout", "'contiguous'"))
    return " and ".join(cl)


contract(F, "Format._checkFillSpec", types=dict(self="Format"), modifies=["map:Format.spec"],
         requires=["len(self.tensor.g_rank_ids) == len(self.tensor.ranks)",
                   "forall(lambda j: self.tensor.g_rank_ids[j] != 'root', 0, len(self.tensor.g_rank_ids))",
                   "forall(lambda a, b: implies(0 <= a and a < b and b < len(self.tensor.g_rank_ids), self.tensor.g_rank_ids[a] != self.tensor.g_rank_ids[b]))"],
         raises={"AssertionError": dict(when="True")},
         ensures={"C18": [
             "has_row(self.spec, 'root') and row_filled(self.spec['root'], 'hbits', 'pbits')",
             kept_or_default("self.spec['root']", "self.spec['root']", "hbits", "0"),
             kept_or_default("self.spec['root']", "self.spec['root']", "pbits", "0"),
             "forall(lambda j: " + rank_post("self.tensor.g_rank_ids[j]") + ", 0, len(self.tensor.g_rank_ids))"]},
         loops={0: dict(modifies=["map:Format.spec"], invariant=[
             "has_row(self.spec, 'root') and row_filled(self.spec['root'], 'hbits', 'pbits')",
             kept_or_default("self.spec['root']", "self.spec['root']", "hbits", "0"),
             kept_or_default("self.spec['root']", "self.spec['root']", "pbits", "0"),
             "ranks is self.tensor.g_rank_ids",
             "forall(lambda j: " + rank_post("self.tensor.g_rank_ids[j]") + ", 0, _i0)",
             # rows of ranks not yet visited are as they were
             "forall(lambda j: iff(has_row(self.spec, self.tensor.g_rank_ids[j]), old(has_row(self.spec, self.tensor.g_rank_ids[j]))), _i0, len(self.tensor.g_rank_ids))",
         ] + ["forall(lambda j: iff(has_field(self.spec[self.tensor.g_rank_ids[j]], '%s'), old(has_field(self.spec[self.tensor.g_rank_ids[j]], '%s'))) and "
              "self.spec[self.tensor.g_rank_ids[j]]['%s'] == old(self.spec[self.tensor.g_rank_ids[j]]['%s']), _i0, len(self.tensor.g_rank_ids))" % (f_, f_, f_, f_)
              for f_ in INT_F + ("format", "layout")])},
         note="missing specification fields default to zero bits, compressed format and contiguous layout; present fields are kept "
              "(the malformed-spec assertions are allowed exits)")
