"""Contracts for fibertree/model/traffic.py (C17).  Only the replacement order of the cache model is within pyvc's subset; the
simulation itself is file-stream processing (FileReadBackwards, CSV text, SortedList, callbacks)."""
from pyvc.contracts import contract

F = "fibertree/model/traffic.py"
Q = "Traffic.cacheTraffic.ListElem."
LEX_LT = ("(self.next_access[0] < other.next_access[0] or (self.next_access[0] == other.next_access[0] and "
          "(self.next_access[1] < other.next_access[1] or (self.next_access[1] == other.next_access[1] and self.pos < other.pos))))")

contract(F, Q + "__eq__", types=dict(self="ListElem", other="ListElem"), returns="bool", modifies=[],
         ensures={"C17": ["result == (self.next_access[0] == other.next_access[0] and self.next_access[1] == other.next_access[1] and self.pos == other.pos)"]})
contract(F, Q + "__lt__", types=dict(self="ListElem", other="ListElem"), returns="bool", modifies=[],
         ensures={"C17": ["result == " + LEX_LT]},
         note="candidates are ordered by next-use stamp (furthest next use last), ties broken by binding position: a strict total order "
              "compatible with __eq__ (lemmas below)")
