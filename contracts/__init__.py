"""Sidecar contracts for fibertree (never edits of /repo).  Importing this package fills the registry."""
from pyvc import speclib  # noqa: F401
from . import schema      # noqa: F401
from . import payload     # noqa: F401
from . import coord_payload  # noqa: F401
from . import fiber  # noqa: F401
from . import iterators  # noqa: F401
from . import rank  # noqa: F401
from . import split  # noqa: F401
from . import format  # noqa: F401
from . import intersect  # noqa: F401
from . import traffic  # noqa: F401
from . import codec  # noqa: F401
from . import wrappers  # noqa: F401
