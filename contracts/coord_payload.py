"""Contracts for fibertree/core/coord_payload.py (C11 element forms)."""
from pyvc.contracts import contract
from .payload import COUNTERS, counts

F = "fibertree/core/coord_payload.py"

contract(F, "CoordPayload.__init__", inline=True)
contract(F, "CoordPayload.__iter__", inline=True)

# element (x) element, element (x) box, element (x) scalar
OPERANDS = [dict(self="CoordPayload", other="CoordPayload"), dict(self="CoordPayload", other="Payload"),
            dict(self="CoordPayload", other="U")]
OPNAMES = ["elem", "box", "scalar"]
# element forms of C11 are about leaf elements: the element's payload is a box
LEAF = ["typeis(self.payload, 'Payload')"]
LEAF2 = {"elem": dict(requires=["typeis(other.payload, 'Payload')"])}
RHS = {"elem": "old(other.payload.value)", "box": "old(other.value)", "scalar": "other"}

BIN = {"__add__": ("+", dict(add="1")), "__sub__": ("-", {}), "__mul__": ("*", dict(mul="1")),
       "__truediv__": ("/", {})}
for name, (op, cnt) in BIN.items():
    contract(F, "CoordPayload." + name, cases=OPERANDS, case_names=OPNAMES, returns="Payload", requires=LEAF,
             modifies=COUNTERS,
             ensures={"C11": ["fresh(result)", "self.payload is old(self.payload)",
                              "self.payload.value == old(self.payload.value)"],
                      "C15": counts(**cnt)},
             per_case={n: dict(requires=(LEAF2.get(n, {}).get('requires', [])), ensures=["result.value == old(self.payload.value) %s %s" % (op, RHS[n])]) for n in OPNAMES})

RBIN = {"__radd__": ("+", dict(add="1")), "__rsub__": ("-", {}), "__rmul__": ("*", dict(mul="1")),
        "__rtruediv__": ("/", {})}
for name, (op, cnt) in RBIN.items():
    contract(F, "CoordPayload." + name, types=dict(self="CoordPayload", other="U"), returns="Payload", requires=LEAF,
             modifies=COUNTERS,
             ensures={"C11": ["fresh(result)", "result.value == other %s old(self.payload.value)" % op,
                              "self.payload.value == old(self.payload.value)"],
                      "C15": counts(**cnt)})

IBIN = {"__iadd__": ("+", dict(update="1", add="(1 if old(self.payload.value) != 0 else 0)")),
        "__isub__": ("-", {}),
        "__imul__": ("*", dict(mul="1", update="1")),
        "__itruediv__": ("/", {})}
for name, (op, cnt) in IBIN.items():
    contract(F, "CoordPayload." + name, cases=OPERANDS, case_names=OPNAMES, returns="CoordPayload", requires=LEAF,
             modifies=COUNTERS + ["self.payload.value", "self.payload"],
             ensures={"C11 C03": ["result is self", "self.payload is old(self.payload)", "self.coord == old(self.coord)"],
                      "C15": counts(**cnt)},
             per_case={n: dict(requires=(LEAF2.get(n, {}).get('requires', [])), ensures=["self.payload.value == old(self.payload.value) %s %s" % (op, RHS[n])]) for n in OPNAMES})

contract(F, "CoordPayload.__ilshift__", cases=OPERANDS, case_names=OPNAMES, returns="CoordPayload", requires=LEAF,
         modifies=COUNTERS + ["self.payload.value", "self.payload"],
         ensures={"C11 C03": ["result is self", "self.payload is old(self.payload)", "self.coord == old(self.coord)"],
                  "C15": counts(update="1")},
         per_case={n: dict(requires=(LEAF2.get(n, {}).get('requires', [])), ensures=["self.payload.value == %s" % RHS[n]]) for n in OPNAMES})

CMP = {"__eq__": "==", "__ne__": "!=", "__lt__": "<", "__le__": "<=", "__gt__": ">", "__ge__": ">="}
CRHS = {"elem": "other.payload.value", "box": "other.value", "scalar": "other"}
for name, op in CMP.items():
    contract(F, "CoordPayload." + name, cases=OPERANDS, case_names=OPNAMES, returns="bool", modifies=[], requires=LEAF,
             ensures={"C11": []},
             per_case={n: dict(requires=(LEAF2.get(n, {}).get('requires', [])), ensures=["result == (self.payload.value %s %s)" % (op, CRHS[n])]) for n in OPNAMES})
