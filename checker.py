"""./check <property> [--tier quick|thorough] | --replay <file> | --selftest

Exit codes: 0 held / 1 VIOLATION (line printed) / 2 undecided / 3 checker crash.
"""
import argparse
import json
import os
import subprocess
import sys
import time
import traceback

HERE = os.path.dirname(os.path.abspath(__file__))
sys.path.insert(0, HERE)
os.chdir(HERE)

VENV_PY = "/venv/bin/python"
REPO = os.environ.get("VERIF_REPO", "/repo")


def load_known():
    try:
        return json.load(open(os.path.join(HERE, "known_findings.json")))
    except Exception:
        return {"fixed": [], "known": []}


def known_match(known, prop, kind, ident, case=None):
    """A known finding matches by property + kind ('obligation'|'bounded') + identifier (+ optional predicate)."""
    for k in known.get("known", []):
        if k.get("property") != prop or k.get("kind") != kind:
            continue
        if k.get("id") != ident:
            continue
        return k
    return None


def run_bounded(prop, tier, seed, module=None):
    mod = os.path.join(HERE, "bounded", (module or prop) + ".py")
    if not os.path.exists(mod):
        return None
    env = dict(os.environ)
    env["VERIF_REPO"] = REPO
    env["PYTHONPATH"] = REPO
    env["PYTHONDONTWRITEBYTECODE"] = "1"
    env["FIBERTREE_VERIF"] = "1"
    p = subprocess.run([VENV_PY, mod, "run", tier, str(seed)], capture_output=True, text=True, env=env,
                       cwd=os.path.join(HERE, "bounded"))
    if p.returncode != 0:
        return dict(crash=True, stderr=p.stderr[-3000:], stdout=p.stdout[-500:])
    try:
        return json.loads(p.stdout[p.stdout.index("{"):])
    except Exception as e:
        return dict(crash=True, stderr="unparsable harness output: %s\n%s" % (e, p.stdout[-1000:]))


def load_obligation_baseline():
    try:
        return json.load(open(os.path.join(HERE, "baseline_obligations.json")))
    except Exception:
        return None


def norm_obligation(name):
    import re
    return re.sub(r"@\d+", "@", re.sub(r"line\d+", "line", name))


def changed_functions(baseline, r):
    """Functions whose source text differs from the recorded unchanged tree, among the function under contract and the
    accessors executed inline from their real bodies while generating its obligations."""
    from pyvc import source
    from pyvc.contracts import REGISTRY
    out = []
    cands = [tuple(r["key"])] + [tuple(u) for u in r["used"] if tuple(u) in REGISTRY and REGISTRY[tuple(u)].inline]
    for f, q in cands:
        want = baseline["functions"].get("%s::%s" % (f, q))
        if want is None:
            continue
        try:
            got = source.source_info(f, source.locate(f, q))["sha256"]
        except Exception:
            got = None
        if got != want:
            out.append("%s::%s" % (f, q))
    return out


def write_replay(prop, n, payload):
    d = os.path.join(HERE, "replays")
    os.makedirs(d, exist_ok=True)
    path = os.path.join(d, "%s-%d.json" % (prop, n))
    with open(path, "w") as f:
        json.dump(payload, f, indent=1, default=str)
    return os.path.relpath(path, HERE)


def do_replay(path):
    data = json.load(open(path))
    prop = data["property"]
    if data.get("kind") == "structural":
        import structural
        for name, holds, detail in structural.CHECKS[prop]():
            if name == data["obligation"]:
                if holds:
                    print("structural obligation %s holds on the current tree" % name)
                    return 0
                print("structural obligation %s fails: %s" % (name, detail))
                print("VIOLATION property=%s replay=%s no-failing-input-found" % (prop, path))
                return 1
        print("UNDECIDED: obligation %s no longer generated" % data["obligation"])
        return 2
    if data.get("kind") == "bounded":
        env = dict(os.environ, VERIF_REPO=REPO, PYTHONPATH=REPO, PYTHONDONTWRITEBYTECODE="1", FIBERTREE_VERIF="1")
        mod = os.path.join(HERE, "bounded", data.get("module", prop) + ".py")
        p = subprocess.run([VENV_PY, mod, "replay", os.path.abspath(path)], env=env, cwd=os.path.join(HERE, "bounded"),
                           capture_output=True, text=True)
        print(p.stdout.strip())
        if p.returncode not in (0, 1):
            print(p.stderr[-2000:])
            return 3
        if p.returncode == 1:
            print("VIOLATION property=%s replay=%s" % (prop, path))
        return p.returncode
    # an obligation without a concrete input: re-run the deductive part for that function only
    import contracts  # noqa: F401
    from pyvc.contracts import REGISTRY
    from pyvc import runner
    key = tuple(data["function"])
    res = runner.run([key], z3_ms=20000, use_cvc5=True, procs=1)
    bad = [o for r in res for o in r["obligations"] if o["name"] == data["obligation"] and o["status"] != "proved"]
    stale = [r for r in res if r["status"] != "ok"]
    if bad:
        print("obligation %s still fails (%s)" % (data["obligation"], bad[0]["status"]))
        print("VIOLATION property=%s replay=%s no-failing-input-found" % (prop, path))
        return 1
    if stale:
        print("UNDECIDED: %s" % stale[0]["detail"])
        return 2
    print("obligation %s is discharged on the current tree" % data["obligation"])
    return 0


def main():
    ap = argparse.ArgumentParser()
    ap.add_argument("prop", nargs="?")
    ap.add_argument("--tier", default=os.environ.get("VERIF_TIER", "quick"))
    ap.add_argument("--replay")
    ap.add_argument("--selftest", action="store_true")
    a = ap.parse_args()
    seed = int(os.environ.get("VERIF_SEED", "0"))
    if a.selftest:
        from pyvc import selftest
        ok = selftest.run()
        print("pyvc self-test:", "PASS" if ok else "FAIL")
        return 0 if ok else 3
    if a.replay:
        return do_replay(a.replay)
    tier = "thorough" if a.tier == "thorough" else "quick"
    prop = a.prop
    t0 = time.time()
    import props
    if prop not in props.PROPS:
        print("unknown or unclaimed property %s" % prop)
        return 3
    P = props.PROPS[prop]
    import contracts  # noqa: F401
    from pyvc.contracts import REGISTRY
    from pyvc import runner, source
    known = load_known()
    baseline = load_obligation_baseline()
    violations = []      # (text, replay path, suffix)
    undecided = []
    known_lines = []
    nrep = [0]

    # ------------------------------------------------------------ deductive part
    keys = props.contract_keys(prop)
    z3_ms = 20000 if tier == "quick" else 60000
    results = runner.run(keys, z3_ms=z3_ms, use_cvc5=True) if keys else []
    obligations = discharged = 0
    backends = {}
    solver_time = 0.0
    functions = []
    failed_obs = []
    for r in results:
        c = REGISTRY[r["key"]]
        fn = dict(function="%s::%s" % r["key"], case=r["case"], tier=c.tier, status=r["status"], src=r["src"],
                  obligations=len(r["obligations"]), paths=r["paths"], relies_on=["%s::%s" % tuple(u) for u in r["used"]],
                  dropped=r["notes"])
        functions.append(fn)
        if r["status"] != "ok":
            undecided.append("%s::%s#%s: %s: %s" % (r["key"][0], r["key"][1], r["case"], r["status"], r["detail"].splitlines()[0] if r["detail"] else ""))
            continue
        for cov in r["covers"]:
            if cov[1] == "unsat":
                undecided.append("%s::%s: vacuous cover %s (contradictory precondition or invariant)" % (r["key"][0], r["key"][1], cov[0]))
        for o in r["obligations"]:
            obligations += 1
            solver_time += o["time"]
            if o["status"] == "proved":
                discharged += 1
                backends[o["backend"]] = backends.get(o["backend"], 0) + 1
            else:
                failed_obs.append((r, o))
    # structural obligations (decided on the AST of the real source, no solver)
    import structural
    struct_failed = []
    if prop in structural.CHECKS:
        for name, holds, detail in structural.CHECKS[prop]():
            obligations += 1
            if holds:
                discharged += 1
                backends["ast-scan"] = backends.get("ast-scan", 0) + 1
            else:
                struct_failed.append((name, detail))
    per_fn = {}
    for fn in functions:
        per_fn[fn["function"]] = per_fn.get(fn["function"], 0) + fn["obligations"]
    for f, n in per_fn.items():
        if n == 0:
            undecided.append("%s: zero obligations generated" % f)

    # ------------------------------------------------------------ thorough: built-in mutants of the P functions
    mutant_info = None
    if tier == "thorough" and keys:
        n, surv = runner.mutant_sweep(keys, z3_ms=5000)
        allowed = set(tuple(x) for x in P.get("equivalent_mutants", []))
        real = [s for s in surv if tuple(s) not in allowed]
        mutant_info = dict(mutants=n, killed=n - len(surv), survivors=[list(s) for s in surv], unexplained=[list(s) for s in real],
                           sites_unreachable_under_contract=getattr(runner.mutant_sweep, "out_of_scope", 0),
                           baseline_not_passing_under_sweep_budget=getattr(runner.mutant_sweep, "invalid", []))
        if real:
            # a surviving mutant marks a contract as weaker than it could be; it says nothing about the property on this tree
            print("NOTE: %d built-in mutants not listed as equivalent survive (contract weakness, see evidence): %s" % (len(real), real[:5]))

    # ------------------------------------------------------------ bounded stand-in / CPython cross-check
    bres = None
    if P.get("bounded"):
        bres = run_bounded(prop, tier, seed, P.get("bounded_module"))
        if bres is None:
            undecided.append("bounded module missing")
        elif bres.get("crash"):
            print("bounded harness crashed:\n" + bres.get("stderr", ""))
            return 3

    # ------------------------------------------------------------ verdicts
    bounded_unlisted = [v for v in (bres["violations"] if bres else []) if known_match(known, prop, "bounded", v["clause"]) is None]
    if bres:
        for v in bres["violations"]:
            ident = "%s::%s" % (v["part"], v["clause"])
            k = known_match(known, prop, "bounded", v["clause"])
            if k is not None:
                known_lines.append("KNOWN-FINDING: property=%s %s: %s (witness %s)" % (prop, ident, k.get("what", v["what"]), json.dumps(v["case"], default=str)[:200]))
                continue
            nrep[0] += 1
            path = write_replay(prop, nrep[0], dict(property=prop, kind="bounded", module=P.get("bounded_module", prop),
                                                    part=v["part"], clause=v["clause"], what=v["what"], case=v["case"],
                                                    observed=v["observed"], expected=v["expected"]))
            violations.append(("%s: %s: %s; observed %s expected %s" % (ident, v["what"], json.dumps(v["case"], default=str)[:300], v["observed"][:200], v["expected"][:200]), path, ""))
    for name, detail in struct_failed:
        k = known_match(known, prop, "obligation", name)
        if k is not None:
            known_lines.append("KNOWN-FINDING: property=%s obligation %s: %s" % (prop, name, k.get("what", "")))
            continue
        nrep[0] += 1
        path = write_replay(prop, nrep[0], dict(property=prop, kind="structural", obligation=name, detail=detail,
                                                verdict="structural obligation fails on the current source"))
        suffix = "" if bounded_unlisted else " no-failing-input-found"
        violations.append(("structural obligation %s fails: %s" % (name, detail), path, suffix))
    for r, o in failed_obs:
        k = known_match(known, prop, "obligation", o["name"])
        if k is not None:
            known_lines.append("KNOWN-FINDING: property=%s obligation %s: %s" % (prop, o["name"], k.get("what", "")))
            continue
        if o["status"] == "refuted":
            nrep[0] += 1
            path = write_replay(prop, nrep[0], dict(property=prop, kind="obligation", function=list(r["key"]), case=r["case"],
                                                    obligation=o["name"], solver=o["backend"], verdict="sat (counter-model)",
                                                    model=o["detail"], smt2_tail=o["smt2"], line=o["line"]))
            # a concrete failing input from the harness takes precedence; otherwise report the obligation itself
            suffix = "" if bounded_unlisted else " no-failing-input-found"
            violations.append(("obligation %s refuted by %s" % (o["name"], o["backend"]), path, suffix))
        else:
            # not a counter-model.  An obligation that was discharged on the unchanged tree and is not discharged now, in a
            # function whose source differs from that tree, is reported; on unchanged source it is solver noise (undecided).
            key = "%s::%s#%s" % (r["key"][0], r["key"][1], r["case"])
            was = baseline is not None and norm_obligation(o["name"]) in set(baseline["proved"].get(key, []))
            chg = changed_functions(baseline, r) if was else []
            if was and chg and o["backend"] != "not-attempted":
                nrep[0] += 1
                path = write_replay(prop, nrep[0], dict(property=prop, kind="obligation", function=list(r["key"]), case=r["case"],
                                                        obligation=o["name"], solver=o["backend"],
                                                        verdict="discharged on the unchanged tree (baseline %s), not discharged on this one: %s" % (
                                                            baseline.get("repo_commit", "?")[:10], o["status"]),
                                                        changed_source=chg, solver_output=o["detail"], smt2_tail=o["smt2"], line=o["line"]))
                suffix = "" if bounded_unlisted else " no-failing-input-found"
                violations.append(("obligation %s was discharged on the unchanged tree and is not after the change to %s (%s: %s)" % (
                    o["name"], ", ".join(chg), o["status"], o["detail"][:120]), path, suffix))
            else:
                undecided.append("obligation %s: %s (%s)" % (o["name"], o["status"], o["detail"][:200]))

    # ------------------------------------------------------------ evidence
    wall = time.time() - t0
    cov = dict(
        obligations=obligations, discharged=discharged,
        checker_cmd="./check %s --tier %s  (pyvc VC generator over /repo sources -> z3 %s, cvc5 on unknown)" % (prop, tier, _z3v()),
        trusted_base=P.get("trusted_base", []) + props.COMMON_TRUSTED,
        back_ends=backends, solver_time_s=round(solver_time, 3),
        functions_under_contract=functions,
        not_proved=[dict(obligation=o["name"], status=o["status"]) for _, o in failed_obs],
        undecided=undecided,
    )
    if mutant_info:
        cov["built_in_mutants"] = mutant_info
    if bres:
        cov.update(evaluations=bres["evaluations"], distinct_nontrivial=bres["distinct_nontrivial"],
                   rule="bounded stand-in (never counted as proved): " + bres["rule"], samples=bres["samples"],
                   bounded=dict(parts=bres["parts"], exhaustive=bres["exhaustive"], wall_s=bres["wall_s"]),
                   exhaustive=bool(bres["exhaustive"]))
    else:
        cov.update(samples=[dict(obligation=o["name"], status=o["status"], backend=o["backend"]) for r in results[:3] for o in r["obligations"][:2]])
    if P["level"] != "proof" and keys:
        cov["proved_core"] = dict(obligations=obligations, discharged=discharged)
    if "samples" in cov and results:
        cov["samples"] = list(cov["samples"]) + [dict(obligation=o["name"], status=o["status"], backend=o["backend"], time_s=o["time"])
                                                  for r in results[:4] for o in r["obligations"][:1]]
    ev = dict(property_id=prop, tier=tier, seed=seed, level=P["level"], coverage=cov,
              assumptions=sorted(set(P.get("assumptions", []) + props.COMMON_ASSUMPTIONS + [x for r in results for x in r["assumptions"]])),
              wall_s=round(wall, 2), violations=len(violations))
    evdir = os.environ.get("VERIF_EVIDENCE_DIR") or os.path.join(HERE, "evidence")
    os.makedirs(evdir, exist_ok=True)
    with open(os.path.join(evdir, prop + ".json"), "w") as f:
        json.dump(ev, f, indent=1, default=str)

    # ------------------------------------------------------------ report
    print("%s [%s]: %d/%d obligations discharged over %d function-cases (%s), solver %.1fs; bounded: %s; wall %.1fs" % (
        prop, tier, discharged, obligations, len(functions), ", ".join("%s:%d" % kv for kv in sorted(backends.items())),
        solver_time, ("%d evaluations" % bres["evaluations"]) if bres else "n/a", wall))
    for l in known_lines:
        print(l)
    for text, path, suffix in violations:
        print("  " + text)
        print("VIOLATION property=%s replay=%s%s" % (prop, path, suffix))
    if violations:
        return 1
    if undecided:
        for u in undecided:
            print("UNDECIDED property=%s %s" % (prop, u))
        return 2
    return 0


def _z3v():
    try:
        import z3
        return z3.get_version_string()
    except Exception:
        return "?"


if __name__ == "__main__":
    try:
        sys.exit(main())
    except SystemExit:
        raise
    except Exception:
        traceback.print_exc()
        sys.exit(3)
