#!/usr/bin/env python3
"""Run the repository's pinned suite with the verification guard OFF and compare with BASELINE.json.
Exit 0 iff every stable-pass test of the baseline passes."""
import json
import os
import subprocess
import sys
import tempfile
import xml.etree.ElementTree as ET

base = json.load(open("/root/.vp/BASELINE.json"))
env = dict(os.environ)
env.pop("FIBERTREE_VERIF", None)
with tempfile.TemporaryDirectory() as d:
    xml = os.path.join(d, "junit.xml")
    subprocess.run(["/venv/bin/python", "-m", "pytest", "-q", "-p", "no:cacheprovider", "--timeout=900",
                    "--continue-on-collection-errors", "--junitxml=" + xml], cwd="/repo", env=env,
                   stdout=subprocess.DEVNULL, stderr=subprocess.DEVNULL)
    passed = set()
    for tc in ET.parse(xml).getroot().iter("testcase"):
        if not any(ch.tag in ("failure", "error", "skipped") for ch in tc):
            passed.add("%s::%s" % (tc.get("classname"), tc.get("name")))
missing = [t for t in base["stable_pass"] if t not in passed]
print("baseline: %d/%d stable tests pass" % (len(base["stable_pass"]) - len(missing), len(base["stable_pass"])))
for t in missing[:20]:
    print("  NOT PASSING:", t)
sys.exit(1 if missing else 0)
