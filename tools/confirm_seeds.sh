#!/bin/sh
# tools/confirm_seeds.sh [seed-id ...]: the recorded confirmation of the seeded changes.
# For each seed: apply the patch to /repo itself, run the property's registered quick check, undo the patch straight afterwards.
# Evidence of these (violating) runs goes to a scratch directory so the committed evidence of the unchanged tree is not overwritten.
# Output: seeded/RESULTS.json  (exit code, VIOLATION lines, what caught it).
cd "$(dirname "$0")/.." || exit 9
VERIF=$(pwd)
if ! git -C /repo diff --quiet; then echo "/repo has uncommitted changes"; exit 9; fi
IDS="$*"
[ -z "$IDS" ] && IDS=$(ls seeded | grep -E '^C[0-9]+-[0-9]+$')
EV=$(mktemp -d /tmp/ev-confirm-XXXXXX)
OUT=$(mktemp -d /tmp/confirm-XXXXXX)
for ID in $IDS; do
  PROP=$(echo "$ID" | cut -d- -f1)
  if ! git -C /repo apply "$VERIF/seeded/$ID/patch.diff" 2>/dev/null; then
    echo "$ID: patch does not apply"; echo "{\"seed\": \"$ID\", \"applies\": false}" > "$OUT/$ID.json"; continue
  fi
  T0=$(date +%s)
  VERIF_EVIDENCE_DIR=$EV ./check "$PROP" --tier quick > "$OUT/$ID.log" 2>&1
  RC=$?
  T1=$(date +%s)
  git -C /repo checkout -- .
  python3 - "$ID" "$PROP" "$RC" "$OUT/$ID.log" "$EV/$PROP.json" $((T1 - T0)) > "$OUT/$ID.json" <<'EOF'
import json, sys, re, os
sid, prop, rc, log, ev, secs = sys.argv[1:7]
lines = open(log).read().splitlines()
viol = [l for l in lines if l.startswith("VIOLATION")]
bounded, refuted = set(), set()
for l in viol:
    m = re.search(r"replay=(\S+)", l)
    if m and os.path.exists(m.group(1)):
        try:
            r = json.load(open(m.group(1)))
        except Exception:
            continue
        if r.get("kind") in ("obligation", "structural"):
            refuted.add(str(r.get("obligation", "")).split("::", 1)[-1])
        else:
            bounded.add("%s: %s" % (r.get("part", ""), str(r.get("clause", r.get("what", "")))[:160]))
not_proved = {}
try:
    e = json.load(open(ev))
    for o in e.get("coverage", {}).get("not_proved", []):
        not_proved.setdefault(o["obligation"].split("::", 1)[-1], o["status"])
except Exception:
    pass
print(json.dumps(dict(seed=sid, property=prop, applies=True, exit=int(rc), violation_lines=len(viol),
                      no_failing_input=sum(1 for l in viol if l.rstrip().endswith("no-failing-input-found")),
                      bounded_clauses=sorted(bounded)[:6],
                      obligations_refuted=sorted(refuted)[:8],
                      obligations_not_proved=sorted("%s (%s)" % (k, v) for k, v in not_proved.items())[:12],
                      obligations_not_proved_count=len(not_proved), seconds=int(secs))))
EOF
  echo "$ID: exit $RC, $(grep -c '^VIOLATION' "$OUT/$ID.log") violation line(s)"
done
git -C /repo status --short | head -3
python3 - "$OUT" <<'EOF'
import json, sys, os, glob
out = sys.argv[1]
path = "seeded/RESULTS.json"
res = {}
if os.path.exists(path):
    res = {r["seed"]: r for r in json.load(open(path))["results"]}
for f in glob.glob(os.path.join(out, "*.json")):
    r = json.load(open(f))
    res[r["seed"]] = r
json.dump(dict(how="tools/confirm_seeds.sh: patch applied to /repo, ./check <property> --tier quick, patch undone",
               results=[res[k] for k in sorted(res)]), open(path, "w"), indent=1)
print("detected %d / %d" % (sum(1 for r in res.values() if r.get("exit") == 1), len(res)))
EOF
rm -rf "$EV" "$OUT"
