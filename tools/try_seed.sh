#!/bin/sh
# tools/try_seed.sh <patch.diff> <prop> [tier]  : apply a seeded change to /repo, run the check, undo it.
set -u
PATCH="$1"; PROP="$2"; TIER="${3:-quick}"
cd /repo || exit 9
if ! git diff --quiet; then echo "/repo has uncommitted changes"; exit 9; fi
git apply "$PATCH" || { echo "patch does not apply"; exit 9; }
cd /verif && ./check "$PROP" --tier "$TIER" | tail -${LINES_OUT:-12}
RC=$?
cd /repo && git checkout -- . 
echo "check exit (of tail pipeline irrelevant) -- see lines above"
