#!/bin/sh
# tools/try_refactor.sh <tree> <prop> [<prop> ...]: run checks against a behaviour-preserving edit of the library (a scratch worktree):
# anything but exit 0 / exit 2 (undecided, never a VIOLATION line) is a false alarm of the machinery.
TREE="$1"; shift
cd "$(dirname "$0")/.." || exit 9
for P in "$@"; do
  VERIF_REPO=$TREE VERIF_EVIDENCE_DIR=/tmp/ev-refactor ./check $P > /tmp/refactor-$P.log 2>&1
  RC=$?
  echo "$P exit $RC  $(grep -c '^VIOLATION' /tmp/refactor-$P.log) violation line(s)"
  grep -E "^VIOLATION|^UNDECIDED|^  [a-z]" /tmp/refactor-$P.log | head -4 | cut -c1-260
done
rm -rf /tmp/ev-refactor
