#!/usr/bin/env python3
"""Re-validate every stored seed against the current /repo HEAD (scratch worktrees under /tmp, removed afterwards)."""
import json, os, shutil, subprocess, sys, tempfile
from concurrent.futures import ThreadPoolExecutor
import xml.etree.ElementTree as ET

BASE = json.load(open("/root/.vp/BASELINE.json"))["stable_pass"]

def sh(cmd, **kw):
    return subprocess.run(cmd, shell=True, capture_output=True, text=True, **kw)

def one(sid):
    seed = os.path.join("/verif/seeded", sid)
    wt = tempfile.mkdtemp(prefix="wt-reval-%s-" % sid, dir="/tmp"); os.rmdir(wt)
    try:
        r = sh("git -C /repo worktree add -q --detach %s HEAD" % wt)
        if r.returncode: return sid, "worktree failed"
        env = dict(os.environ, PYTHONPATH=wt, PYTHONDONTWRITEBYTECODE="1")
        before = subprocess.run(["/venv/bin/python", os.path.join(seed, "demo.py")], env=env, cwd=wt, capture_output=True, text=True)
        ap = sh("git -C %s apply %s" % (wt, os.path.join(seed, "patch.diff")))
        how = "apply"
        if ap.returncode:
            ap = sh("git -C %s apply --3way %s" % (wt, os.path.join(seed, "patch.diff")))
            how = "3way"
            if ap.returncode: return sid, "PATCH DOES NOT APPLY"
        after = subprocess.run(["/venv/bin/python", os.path.join(seed, "demo.py")], env=env, cwd=wt, capture_output=True, text=True)
        xml = os.path.join(wt, "junit-reval.xml")
        subprocess.run(["/venv/bin/python", "-m", "pytest", "-q", "-p", "no:cacheprovider", "--timeout=900", "--continue-on-collection-errors",
                        "--junitxml=" + xml], cwd=wt, env=env, capture_output=True, text=True)
        passed = set()
        for tc in ET.parse(xml).getroot().iter("testcase"):
            if not any(ch.tag in ("failure", "error", "skipped") for ch in tc):
                passed.add("%s::%s" % (tc.get("classname"), tc.get("name")))
        missing = [t for t in BASE if t not in passed]
        st = "VALID" if (before.returncode == 0 and after.returncode != 0 and not missing) else \
             "INVALID(before=%d after=%d missing=%d)" % (before.returncode, after.returncode, len(missing))
        return sid, "%s [%s]" % (st, how)
    finally:
        sh("git -C /repo worktree remove --force %s" % wt)
        shutil.rmtree(wt, ignore_errors=True)

ids = sorted(os.listdir("/verif/seeded")) if len(sys.argv) == 1 else sys.argv[1:]
with ThreadPoolExecutor(6) as ex:
    for sid, st in ex.map(one, ids):
        print(sid, st, flush=True)
