"""Record which obligations are discharged on the unchanged tree (run on a clean /repo at the commit the contracts were
written against):  python3-vt tools/gen_obligation_baseline.py
Writes baseline_obligations.json: per function-case the (line-number-free) names of the discharged obligations, and the
sha256 of every function under contract.  The checker uses it for one thing only: an obligation that was discharged here
and is not discharged on a tree whose function source differs is reported as a violation (DESIGN 9.4)."""
import hashlib
import json
import os
import re
import subprocess
import sys

HERE = os.path.dirname(os.path.dirname(os.path.abspath(__file__)))
sys.path.insert(0, HERE)
import contracts  # noqa: E402,F401
from pyvc import runner, source  # noqa: E402
from pyvc.contracts import REGISTRY  # noqa: E402


def norm(name):
    return re.sub(r"@\d+", "@", re.sub(r"line\d+", "line", name))


def fn_sha(f, q):
    try:
        node = source.locate(f, q)
        return source.source_info(f, node)["sha256"]
    except Exception:
        return None


def main():
    res = runner.run(list(REGISTRY), z3_ms=20000)
    proved, bad = {}, 0
    for r in res:
        key = "%s::%s#%s" % (r["key"][0], r["key"][1], r["case"])
        if r["status"] != "ok":
            bad += 1
            continue
        names = set()
        for o in r["obligations"]:
            if o["status"] == "proved":
                names.add(norm(o["name"]))
            else:
                bad += 1
        proved[key] = sorted(names)
    shas = {"%s::%s" % k: fn_sha(*k) for k in REGISTRY if k[0] != "<extern>"}
    try:
        commit = subprocess.run(["git", "-C", source.REPO, "rev-parse", "HEAD"], capture_output=True, text=True).stdout.strip()
        dirty = subprocess.run(["git", "-C", source.REPO, "status", "--porcelain", "--untracked-files=no"], capture_output=True, text=True).stdout.strip()
    except Exception:
        commit, dirty = "?", ""
    if bad or dirty:
        print("refusing to write a baseline: %d obligations/functions not discharged, repo dirty=%r" % (bad, bool(dirty)))
        return 1
    json.dump(dict(repo_commit=commit, functions=shas, proved=proved), open(os.path.join(HERE, "baseline_obligations.json"), "w"), indent=0, sort_keys=True)
    print("baseline: %d function-cases, %d obligation names, repo %s" % (len(proved), sum(len(v) for v in proved.values()), commit[:10]))
    return 0


if __name__ == "__main__":
    sys.exit(main())
