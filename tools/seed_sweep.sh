#!/bin/sh
# run every registered check with several seeds; report anything that is not exit 0
cd "$(dirname "$0")/.."
for s in "$@"; do
  for p in $(python3 -c "import json;print(' '.join(c['property_id'] for c in json.load(open('MANIFEST.json'))['checks']))"); do
    VERIF_SEED=$s VERIF_EVIDENCE_DIR=/tmp/ev-sweep-$$ ./check $p > /tmp/sweep-$p-$s.log 2>&1
    rc=$?
    [ $rc -ne 0 ] && { echo "seed=$s $p exit=$rc"; grep -E "^VIOLATION|^UNDECIDED|^  " /tmp/sweep-$p-$s.log | head -4 | cut -c1-500; }
  done
done
echo "sweep done"
rm -rf /tmp/ev-sweep-$$
