#!/usr/bin/env python3-vt
"""Regenerate MANIFEST.json from props.py (so the manifest is always consistent with what ./check accepts)."""
import json
import os
import sys

HERE = os.path.dirname(os.path.dirname(os.path.abspath(__file__)))
sys.path.insert(0, HERE)
import contracts  # noqa
import props

SCALE_PROPS = {"C01", "C02", "C03", "C04", "C05", "C06", "C07", "C08", "C09", "C10", "C12", "C13", "C14", "C15", "C16", "C17", "C18", "C19", "C20"}
SCALE_NOTE = (" In addition the bounded part samples a few dozen (thorough: a few hundred) seeded random instances far outside the enumerated scopes "
              "(part `scale` in the evidence: tens of elements, coordinates in the hundreds); that is sampling, not enumeration, and every case runs "
              "under a time limit so that an operation that never returns is reported rather than waited for.")

ALL = [json.loads(l)["id"] for l in open(os.path.join(HERE, "properties.jsonl"))]
checks = []
for pid in ALL:
    if pid not in props.PROPS:
        continue
    P = props.PROPS[pid]
    checks.append(dict(
        property_id=pid,
        quick_cmd="./check %s --tier quick" % pid,
        thorough_cmd="./check %s --tier thorough" % pid,
        evidence_file="evidence/%s.json" % pid,
        replay_cmd_template="./check %s --replay {path}" % pid,
        engine="pyvc",
        level_claimed=dict(category=P["level"], text=P["text"] + (SCALE_NOTE if pid in SCALE_PROPS else ""),
                           design_ref=P.get("design_ref", "DESIGN.md section 4, " + pid)),
        level_note=P["note"],
        technique=P["technique"]))
na = [dict(property_id=pid, reason=props.NOT_APPLICABLE.get(pid, "not yet under contract in this round; see DESIGN.md section 4"))
      for pid in ALL if pid not in props.PROPS]
man = dict(
    version=1,
    setup_cmd="./check --selftest",
    hooks=dict(guard="FIBERTREE_VERIF", enable="no source hooks: contracts are sidecar files under /verif/contracts and monitors wrap at run time; checks set FIBERTREE_VERIF=1 for uniformity",
               baseline_off_cmd="python3 tools/baseline.py", source_commits=[], add_only=True),
    engines=[dict(name="pyvc", path="pyvc/", serves_properties=[c["property_id"] for c in checks],
                  kind_free_text="contract-based deductive verifier built here: VC generator over the Python ast of the real /repo functions "
                                 "(symbolic execution between cut points; loop invariants; modular calls by contract; frames), discharging to z3 and cvc5; "
                                 "bounded stand-in = executable contracts on the real functions over an exhaustively enumerated small scope")],
    checks=checks,
    notes="Exit codes of ./check: 0 held, 1 VIOLATION, 2 undecided (solver unknown / stale contract; never reported as violation), 3 checker crash. "
          "known_findings.json lists fixed and known defects. Seeded changes and what catches them: DESIGN.md section 9.",
    not_applicable=na)
json.dump(man, open(os.path.join(HERE, "MANIFEST.json"), "w"), indent=1)
print("MANIFEST: %d checks, %d not_applicable" % (len(checks), len(na)))
