#!/usr/bin/env python3
"""validate_seed.py <seed_dir> <seed_id>: confirm a seeded change in a scratch worktree (outside /repo and /verif):
demo passes on the untouched tree, fails on the changed tree, and the pinned stable tests still pass.  On success the
change is stored under /verif/seeded/<seed_id>/ (patch.diff, demo.py, meta.json)."""
import json, os, shutil, subprocess, sys, tempfile
import xml.etree.ElementTree as ET

seed, sid = sys.argv[1], sys.argv[2]
wt = tempfile.mkdtemp(prefix="wt-validate-", dir="/tmp")
os.rmdir(wt)
def sh(cmd, **kw):
    return subprocess.run(cmd, shell=True, capture_output=True, text=True, **kw)
try:
    r = sh("git -C /repo worktree add -q --detach %s HEAD" % wt)
    assert r.returncode == 0, r.stderr
    env = dict(os.environ, PYTHONPATH=wt, PYTHONDONTWRITEBYTECODE="1")
    demo = os.path.join(seed, "demo.py")
    before = subprocess.run(["/venv/bin/python", demo], env=env, cwd=wt, capture_output=True, text=True)
    ap = sh("git -C %s apply %s" % (wt, os.path.join(seed, "patch.diff")))
    assert ap.returncode == 0, "patch does not apply: " + ap.stderr
    after = subprocess.run(["/venv/bin/python", demo], env=env, cwd=wt, capture_output=True, text=True)
    xml = os.path.join(wt, "junit-validate.xml")
    subprocess.run(["/venv/bin/python", "-m", "pytest", "-q", "-p", "no:cacheprovider", "--timeout=900",
                    "--continue-on-collection-errors", "--junitxml=" + xml], cwd=wt, env=env, capture_output=True, text=True)
    passed = set()
    for tc in ET.parse(xml).getroot().iter("testcase"):
        if not any(ch.tag in ("failure", "error", "skipped") for ch in tc):
            passed.add("%s::%s" % (tc.get("classname"), tc.get("name")))
    base = json.load(open("/root/.vp/BASELINE.json"))["stable_pass"]
    missing = [t for t in base if t not in passed]
    ok = before.returncode == 0 and after.returncode != 0 and not missing
    print("demo untouched rc=%d, demo changed rc=%d, stable tests missing=%d -> %s" % (before.returncode, after.returncode, len(missing), "VALID" if ok else "INVALID"))
    if not ok:
        print(before.stderr[-500:], after.stderr[-300:], missing[:5])
        sys.exit(1)
    out = os.path.join("/verif/seeded", sid)
    os.makedirs(out, exist_ok=True)
    shutil.copy(os.path.join(seed, "patch.diff"), out)
    shutil.copy(demo, out)
    meta = json.load(open(os.path.join(seed, "meta.json")))
    meta["validated"] = dict(demo_untouched_rc=before.returncode, demo_changed_rc=after.returncode,
                             demo_changed_message=(after.stderr.strip().splitlines() or [""])[-1][:300],
                             stable_tests_passing=len(base) - len(missing), stable_tests_total=len(base),
                             how="scratch worktree of /repo HEAD under /tmp; pinned suite via pytest junit vs BASELINE.json stable_pass")
    json.dump(meta, open(os.path.join(out, "meta.json"), "w"), indent=1)
finally:
    sh("git -C /repo worktree remove --force %s" % wt)
    shutil.rmtree(wt, ignore_errors=True)
