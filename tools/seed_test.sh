#!/bin/sh
# tools/seed_test.sh <seed-id> [prop] [tier]: run a check against a seeded change in a scratch worktree (dev loop only;
# the recorded confirmation applies the patch to /repo itself, see tools/confirm_seeds.sh)
ID="$1"; PROP="${2:-$(echo $ID | cut -d- -f1)}"; TIER="${3:-quick}"
WT=/tmp/wt-seedtest-$ID-$$
git -C /repo worktree add -q --detach $WT HEAD || exit 9
if ! git -C $WT apply /verif/seeded/$ID/patch.diff 2>/dev/null; then
  if ! git -C $WT apply --3way /verif/seeded/$ID/patch.diff 2>/dev/null; then echo "$ID: patch does not apply"; git -C /repo worktree remove --force $WT; exit 9; fi
fi
cd /verif && VERIF_REPO=$WT VERIF_EVIDENCE_DIR=/tmp/ev-$$ ./check $PROP --tier $TIER > /tmp/seedtest-$ID-$PROP.log 2>&1
RC=$?
echo "$ID vs $PROP: exit $RC  $(grep -c '^VIOLATION' /tmp/seedtest-$ID-$PROP.log) violation line(s)"
grep -E "^VIOLATION|^UNDECIDED|^  " /tmp/seedtest-$ID-$PROP.log | head -${SHOW:-4}
git -C /repo worktree remove --force $WT
rm -rf /tmp/ev-$$
