"""Structural obligations: contract clauses that are decided on the AST of the real source without a solver
(frames over class-level state, syntactic non-interference).  Re-read from /repo on every run.
Each function returns a list of (obligation name, holds, detail)."""
import ast
import os

from pyvc import source


def _class(relfile, name):
    tree, _ = source.module_ast(relfile)
    for n in tree.body:
        if isinstance(n, ast.ClassDef) and n.name == name:
            return n
    return None


def metrics_begin_collect_resets_everything():
    """C15 session isolation: beginCollect assigns EVERY class attribute of Metrics a fresh literal value
    (except the configuration num_cached_uses, which C16's flush independence covers)."""
    f = "fibertree/core/metrics.py"
    cls = _class(f, "Metrics")
    out = []
    if cls is None:
        return [("%s::Metrics::class-present" % f, False, "class Metrics not found")]
    attrs = [s.targets[0].id for s in cls.body if isinstance(s, ast.Assign) and len(s.targets) == 1 and isinstance(s.targets[0], ast.Name)]
    begin = next((s for s in cls.body if isinstance(s, ast.FunctionDef) and s.name == "beginCollect"), None)
    if begin is None:
        return [("%s::Metrics.beginCollect::present" % f, False, "beginCollect not found")]
    assigned = {}
    for st in begin.body:          # top-level, unconditional assignments only
        if isinstance(st, ast.Assign) and len(st.targets) == 1 and isinstance(st.targets[0], ast.Attribute) \
                and isinstance(st.targets[0].value, ast.Name) and st.targets[0].value.id == "cls":
            assigned[st.targets[0].attr] = st.value
    for a in attrs:
        if a == "num_cached_uses":
            continue
        name = "%s::Metrics.beginCollect::resets[%s]" % (f, a)
        if a not in assigned:
            out.append((name, False, "class attribute %s is not assigned unconditionally in beginCollect" % a))
            continue
        v = assigned[a]
        fresh = isinstance(v, (ast.Dict, ast.List, ast.Constant)) or (isinstance(v, ast.Name) and v.id == "prefix" and a == "prefix")
        if isinstance(v, (ast.Dict, ast.List)) and (getattr(v, "keys", None) or getattr(v, "elts", None)):
            fresh = False
        out.append((name, fresh, "" if fresh else "assigned a non-literal / non-empty value: %s" % ast.dump(v)[:120]))
    return out


def metrics_calls_guarded(relfile, quals):
    """C15 transparency (syntactic part): in the given functions every call on Metrics other than isCollecting()
    is control-dependent on a collection flag (is_collecting / *_traced / Metrics.isCollecting())."""
    out = []
    for qual in quals:
        try:
            fn = source.locate(relfile, qual)
        except Exception as e:
            out.append(("%s::%s::metrics-guard" % (relfile, qual), False, "function not found: %s" % e))
            continue
        bad = []

        def flagish(test):
            for n in ast.walk(test):
                if isinstance(n, ast.Name) and (n.id == "is_collecting" or n.id.endswith("_traced") or n.id in ("traced", "inserting")):
                    return True
                if isinstance(n, ast.Attribute) and n.attr == "isCollecting":
                    return True
            return False

        def walk(stmts, guarded):
            for s in stmts:
                if isinstance(s, (ast.FunctionDef, ast.ClassDef)):
                    continue
                if isinstance(s, ast.If):
                    g = guarded or flagish(s.test)
                    walk(s.body, g)
                    walk(s.orelse, guarded)
                    _calls(s.test, guarded)
                    continue
                for fld in ("body", "orelse", "finalbody"):
                    sub = getattr(s, fld, None)
                    if isinstance(sub, list):
                        walk(sub, guarded)
                for h in getattr(s, "handlers", []) or []:
                    walk(h.body, guarded)
                if not isinstance(s, (ast.For, ast.While, ast.Try, ast.With)):
                    _calls(s, guarded)
                else:
                    for fld in ("iter", "test"):
                        if getattr(s, fld, None) is not None:
                            _calls(getattr(s, fld), guarded)

        def _calls(node, guarded):
            for n in ast.walk(node):
                if isinstance(n, ast.Call) and isinstance(n.func, ast.Attribute) and isinstance(n.func.value, ast.Name) \
                        and n.func.value.id == "Metrics" and n.func.attr != "isCollecting" and not guarded:
                    # a conjunction like `x and Metrics.f()` inside an already flag-tested expression is accepted
                    bad.append("%s at line %d" % (n.func.attr, n.lineno))
        walk(fn.body, False)
        out.append(("%s::%s::metrics-calls-guarded" % (relfile, qual), not bad, "; ".join(bad)))
    return out


def c15():
    res = metrics_begin_collect_resets_everything()
    res += metrics_calls_guarded("fibertree/core/iterators.py",
                                 ["iterRange", "iterRangeShape", "iterRangeShapeRef", "__and__.and_iterator.__iter__",
                                  "__or__.or_iterator.__iter__", "__lshift__.lshift_iterator.__iter__"])
    res += metrics_calls_guarded("fibertree/core/fiber.py", ["Fiber.getPayload", "Fiber.getPayloadRef"])
    return res


CHECKS = {"C15": c15}
