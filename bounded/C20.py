"""Bounded stand-in for C20: the codec's per-rank arrays decode, by the documented layouts alone, to the original content."""
import contextlib
import io
import itertools
import math
import random

from common import Recorder, guarded, main
from gen import specs, specs1, build_tensor, spec_key, random_spec
from spec.oracle import spec_content

from fibertree import Tensor, Codec
from fibertree.codec.formats.coord_list import CoordinateList
from fibertree.codec.formats.uncompressed import Uncompressed
from fibertree.codec.formats.bitvector import Bitvector


def _ser(spec):
    return {str(k): (_ser(v) if isinstance(v, dict) else v) for k, v in spec.items()}


def _deser(spec):
    return {int(k): (_deser(v) if isinstance(v, dict) else v) for k, v in spec.items()}


class StubCache(dict):
    """Stand-in for the LRU the codec's handle interface expects (get / item assignment / counters)."""
    miss_count = 0
    hit_count = 0

    def get(self, k, d=None):
        if k in self:
            self.hit_count += 1
            return self[k]
        self.miss_count += 1
        return d


def encode(t, desc, shape):
    codec = Codec(tuple(desc), [True] * len(desc))
    ids = t.getRankIds()
    out = codec.get_output_dict(ids)
    ot = [[] for _ in range(len(desc) + 1)]
    with contextlib.redirect_stdout(io.StringIO()):
        codec.encode(-1, t.getRoot(), ids, out, ot, shape=shape)
        cache = StubCache()
        for d, rank in enumerate(ot):
            for i, fiber in enumerate(rank):
                fiber.setName("T_%d_%d" % (d, i))
                fiber.cache = cache
    return out, ot


def decode(out, desc, ids, dims):
    """Decode by the documented layouts alone: U = implicit positions, C = explicit coordinates, B = bit mask over the shape;
    fibers of a rank are serialised in depth-first order; a non-leaf rank whose child rank is C or B stores, per child,
    the cumulative occupancy (segment end) of that child within its parent."""
    cur = {k: 0 for k in out}

    def take(key, n):
        a = out[key][cur[key]:cur[key] + n]
        if len(a) != n:
            raise ValueError("array %s too short (wanted %d at %d, has %d)" % (key, n, cur[key], len(out[key])))
        cur[key] += n
        return a

    def fiber(depth, occ, prefix, content):
        fmt = desc[depth]
        ck, pk = "coords_%s" % ids[depth].lower(), "payloads_%s" % ids[depth].lower()
        leaf = depth == len(desc) - 1
        if fmt == "U":
            coords = list(range(dims[depth]))
        elif fmt == "C":
            coords = take(ck, occ)
        else:
            mask = take(ck, dims[depth])
            coords = [i for i, b in enumerate(mask) if b]
        if leaf:
            vals = take(pk, len(coords))
            for c, v in zip(coords, vals):
                if v != 0:
                    content[prefix + (c,)] = v
            return
        child_lens = [None] * len(coords)
        if desc[depth + 1] in ("C", "B"):
            ends = take(pk, len(coords))
            prev = 0
            for i, e in enumerate(ends):
                child_lens[i] = e - prev
                prev = e
        for c, n in zip(coords, child_lens):
            fiber(depth + 1, n, prefix + (c,), content)

    content = {}
    root_occ = out["payloads_root"][0] if desc[0] in ("C", "B") and out["payloads_root"] else None
    fiber(0, root_occ, (), content)
    for k in out:
        if k != "payloads_root" and cur[k] != len(out[k]):
            raise ValueError("array %s has %d unread entries" % (k, len(out[k]) - cur[k]))
    return content


def check(rec, part, depth, n, spec, desc, imposed):
    case = dict(depth=depth, n=n, spec=_ser(spec), desc="".join(desc), imposed=imposed)
    t = build_tensor(spec, depth, n)
    want = spec_content(spec)
    shape = list(imposed) if imposed else None
    dims = list(imposed) if imposed else [n] * depth
    ok, r = guarded(rec, part, case, lambda: encode(t, desc, shape), "encoding does not raise")
    if not ok:
        return
    out, ot = r
    clause = "the per-rank arrays decode by the documented layout to the original content"
    if imposed and "B" in desc[:-1]:
        clause += " (imposed shape below a bit-vector rank)"
    ok, got = guarded(rec, part, case, lambda: decode(out, desc, t.getRankIds(), dims), clause)
    if ok and got != want:
        rec.violation(part, "decoded content differs", case, clause, got, want)
        return
    # leaf fibers through their own handle interface; lookups; sizes
    leaf_fmt = desc[-1]
    leaves = ot[depth]
    # the leaf fibers in depth-first order correspond to the stored leaf-level fibers reached by the encoder
    exp_leaves = list(expected_leaf_fibers(spec, depth, desc, dims))
    if len(leaves) != len(exp_leaves):
        rec.violation(part, "number of encoded leaf fibers differs", case, "one encoded fiber per fiber reached by the layout", len(leaves), len(exp_leaves))
        return
    for fobj, elems in zip(leaves, exp_leaves):
        dim = dims[-1]
        with contextlib.redirect_stdout(io.StringIO()):
            try:
                if leaf_fmt == "C":
                    got_scan = [(fobj.handleToCoord(h), fobj.payloadToValue(fobj.handleToPayload(h))) for h in range(fobj.getSliceMaxLength())]
                    want_scan = [(c, v) for c, v in elems]
                    size_want = 2 * len(elems)
                    for q in range(-1, dim + 2):
                        h = fobj.coordToHandle(q)
                        cs = [c for c, _ in elems]
                        exp = next((i for i, c in enumerate(cs) if c >= q), None)
                        if h != exp:
                            rec.violation(part, "coordToHandle wrong", dict(case, coords=cs, query=q),
                                          "coordinate lookup returns the handle of the first stored coordinate not below the query", h, exp)
                            break
                elif leaf_fmt == "U":
                    d = dict(elems)
                    got_scan = [(fobj.handleToCoord(h), fobj.payloadToValue(fobj.handleToPayload(h))) for h in range(fobj.getSliceMaxLength())]
                    want_scan = [(c, d.get(c, 0)) for c in range(dim)]
                    size_want = dim
                else:
                    # bit-vector fiber: scan through setupSlice / nextInSlice (mask position + running payload handle)
                    fobj.setupSlice(0)
                    got_scan = []
                    for _guard in range(dim + 2):
                        h = fobj.nextInSlice()
                        if h is None:
                            break
                        got_scan.append((fobj.handleToCoord(h), fobj.payloadToValue(fobj.handleToPayload(h))))
                    want_scan = [(c, v) for c, v in elems]
                    size_want = math.ceil(dim / 32) + len(elems)
                size = fobj.getSize()
            except Exception as e:
                rec.violation(part, "handle interface raised %s" % type(e).__name__, case, "scanning an encoded fiber through its handle interface works", repr(e), None)
                return
        if got_scan is not None and got_scan != want_scan:
            rec.violation(part, "handle scan differs from the elements", case, "the same elements are obtained by scanning each encoded fiber through its handle interface", got_scan, want_scan)
            return
        if size != size_want:
            rec.violation(part, "getSize wrong", dict(case, fmt=leaf_fmt), "each encoded (leaf) fiber reports a size equal to the number of words its layout stores", size, size_want)
            return


def expected_leaf_fibers(spec, depth, desc, dims, level=0):
    """Leaf-level fibers in the order the layout reaches them: U visits every position (absent -> empty fiber),
    C and B visit the non-empty elements only."""
    if level == depth - 1:
        yield [(c, v) for c, v in sorted(spec.items()) if v != 0]
        return
    if desc[level] == "U":
        for c in range(dims[level]):
            yield from expected_leaf_fibers(spec.get(c, {}), depth, desc, dims, level + 1)
    else:
        for c in sorted(spec):
            if spec_content(spec[c]):
                yield from expected_leaf_fibers(spec[c], depth, desc, dims, level + 1)


def run(tier, seed):
    rec = Recorder("C20", tier, seed, budget_s=100 if tier == "quick" else 900)
    rnd = random.Random(seed)
    for spec in specs1(4, vals=(0, 1, 2)):
        for desc in itertools.product("UCB", repeat=1):
            for imposed in (None, [6]):
                rec.case("depth1", (spec_key(spec), desc, repr(imposed)), sample=dict(spec=_ser(spec), desc="".join(desc)))
                check(rec, "depth1", 1, 4, spec, desc, imposed)
    # longer coordinate lists for the binary search
    for k in range(0, 9):
        for cs in itertools.combinations(range(9), k):
            if rnd.random() < (0.25 if tier == "quick" else 1.0):
                spec = {c: 1 + (c % 3) for c in cs}
                rec.case("depth1-long", cs)
                check(rec, "depth1-long", 1, 9, spec, ("C",), None)
    s2 = list(specs(2, 3, vals=(0, 1), sub_limit=9))
    for spec in s2[::2 if tier == "quick" else 1]:
        if rec.out_of_time():
            break
        for desc in itertools.product("UCB", repeat=2):
            for imposed in (None, [4, 5]):
                rec.case("depth2", (spec_key(spec), desc, repr(imposed)))
                check(rec, "depth2", 2, 3, spec, desc, imposed)
    for _ in range(300 if tier == "quick" else 5000):
        if rec.out_of_time():
            break
        spec = random_spec(rnd, 3, 2, p_present=0.6)
        desc = tuple(rnd.choice("UCB") for _ in range(3))
        imposed = rnd.choice([None, None, [3, 2, 3]])
        rec.case("depth3", (spec_key(spec), desc, repr(imposed)))
        check(rec, "depth3", 3, 2, spec, desc, imposed)
    # at scale: long fibers and large dimensions (several mask words / cache lines, binary searches of depth 5+);
    # first the word / line boundaries of the bit-vector layout (32-bit words, 128-bit lines), then random fibers
    for dim, cs in ((300, [127, 130, 200, 299]), (130, [127]), (260, [0, 31, 32, 127, 128, 255, 256]), (129, [128]), (64, [31, 32, 63])):
        spec = {c: 1 + (c % 3) for c in cs}
        for desc in (("B",), ("C",), ("U",)):
            rec.case("scale", ("boundary", dim, tuple(cs), desc))
            check(rec, "scale", 1, dim, spec, desc, None)
    for _ in range(40 if tier == "quick" else 500):
        dim = rnd.choice([40, 130, 300])
        cnt = rnd.choice([1, 4, 12, 30])
        cs = sorted(rnd.sample(range(dim), min(cnt, dim)))
        if rnd.random() < 0.5:
            cs = sorted(set(cs) | {dim - 1, (dim // 128) * 128 - 1 if dim > 128 else dim - 2})
        cs = [c for c in cs if c >= 0]
        spec = {c: 1 + (c % 3) for c in cs}
        desc = (rnd.choice("UCB"),)
        rec.case("scale", (spec_key(spec), desc, dim))
        check(rec, "scale", 1, dim, spec, desc, None)
    return rec.result("every fiber over 4 coordinates x {U,C,B}; coordinate lists over 9 coordinates (binary search); depth-2 trees over 3 coordinates "
                      "(explicit defaults, empty sub-fibers, all-zero tensor) x all 9 descriptors; seeded random depth-3 tensors x random descriptors; "
                      "each with and without an imposed larger shape; decoder written from the layouts only; leaf fibers scanned through the handle "
                      "interface with a stub cache (B fibers through setupSlice/nextInSlice); coordToHandle for every query; getSize of leaf fibers; "
                      "plus seeded random leaf fibers at scale (dimensions 40-300, up to 30 elements)")


def replay(case):
    rec = Recorder("C20", "replay", 0)
    check(rec, "replay", case["depth"], case["n"], _deser(case["spec"]), tuple(case["desc"]), case["imposed"])
    if rec.violations:
        v = rec.violations[0]
        return False, "REPRODUCED: %s: %s (observed %s, expected %s)" % (v["what"], v["clause"], v["observed"], v["expected"])
    return True, "not reproduced"


if __name__ == "__main__":
    raise SystemExit(main(__import__("C20")))
