"""Bounded stand-in for C08: splits against partitions recomputed from the original's element list."""
import itertools
import random

from common import Recorder, guarded, main
from gen import specs1, specs, build_fiber, build_tensor, spec_key, random_spec, scale_spec
from spec.oracle import raw, is_fiber, is_box, unbox, content

from fibertree import Fiber, Tensor, Payload

INF = float("inf")


def _ser(spec):
    return {str(k): (_ser(v) if isinstance(v, dict) else v) for k, v in spec.items()}


def _deser(spec):
    return {int(k): (_deser(v) if isinstance(v, dict) else v) for k, v in spec.items()}


def nonempty(p):
    if is_fiber(p):
        return any(nonempty(q) for q in p.payloads)
    return unbox(p) != 0


def elements(f):
    return [(c, p) for c, p in zip(f.coords, f.payloads) if nonempty(p)]


# ------------------------------------------------------------------ partition oracles (from the statement)
def parts_from_bounds(E, bounds, pre, post, active):
    """bounds: ascending starts; partition i is [bounds[i], bounds[i+1]) (last one unbounded).
    Returns [(start, [(c, p) ...], (range_start, range_end))] for the non-empty partitions meeting the active range."""
    a0, a1 = active
    out = []
    ends = list(bounds[1:]) + [INF]
    for s, e in zip(bounds, ends):
        if e <= a0 or s >= a1:
            continue
        members = [(c, p) for c, p in E if a0 - pre <= c < a1 + post and s - pre <= c < e + post]
        if members:
            out.append((s, members, (max(s, a0), min(e, a1))))
    return out


def want_uniform(E, step, pre, post, active):
    a0, a1 = active
    lo = (a0 // step) * step
    bounds = list(range(lo, a1 + step, step))
    res = []
    for s in bounds:
        e = s + step
        if e <= a0 or s >= a1:
            continue
        members = [(c, p) for c, p in E if a0 - pre <= c < a1 + post and s - pre <= c < e + post]
        if members:
            res.append((s, members, (max(s, a0), min(e, a1))))
    return res


def bounds_equal(E, step, active):
    act = [(c, p) for c, p in E if active[0] <= c < active[1]]
    return [active[0] if i == 0 else c for i, (c, _) in enumerate(act) if i % step == 0]


def bounds_unequal(E, sizes, active):
    act = [(c, p) for c, p in E if active[0] <= c < active[1]]
    if not act:
        return []
    b = [active[0]]
    pos = 0
    for sz in sizes:
        pos += sz
        if pos < len(act):
            b.append(act[pos][0])
        else:
            break
    return b


def compare(rec, part, case, result, want, relative, what):
    """result: the split fiber (upper level); want: oracle partitions."""
    got_starts = list(result.coords)
    if got_starts != [s for s, _, _ in want]:
        rec.violation(part, "upper coordinates wrong", case, "upper coordinates are the starting boundaries of the non-empty partitions, ascending (%s)" % what,
                      got_starts, [s for s, _, _ in want])
        return False
    for lower, (s, members, rng) in zip(result.payloads, want):
        exp_coords = [(c - s) if relative else c for c, _ in members]
        if list(lower.coords) != exp_coords:
            rec.violation(part, "lower coordinates wrong", dict(case, partition=s),
                          "each partition holds exactly the elements of its (halo-extended) interval, in order%s (%s)" % (
                              ", as offsets from the partition start" if relative else "", what), list(lower.coords), exp_coords)
            return False
        for q, (_, p) in zip(lower.payloads, members):
            same = (q is p) or (raw(q) == raw(p))
            if not same:
                rec.violation(part, "payload changed", dict(case, partition=s), "payloads unchanged (%s)" % what, raw(q), raw(p))
                return False
        act = lower.getActive()
        if tuple(act) != tuple(rng):
            rec.violation(part, "partition active range wrong", dict(case, partition=s),
                          "each partition's active range is its interval clipped to the parent's active range (%s)" % what, tuple(act), tuple(rng))
            return False
    return True


def check_fiber(rec, part, n, spec, active, kind, arg, pre, post, relative):
    case = dict(n=n, spec=_ser(spec), active=active, kind=kind, arg=arg, pre=pre, post=post, relative=relative)
    f = build_fiber(spec, 1, shape=n)
    if active is not None:
        f.setActive(tuple(active))
    act = tuple(active) if active is not None else (0, n)
    E = elements(f)
    before = raw(f)
    kw = dict(relativeCoords=relative, pre_halo=pre, post_halo=post)
    if kind == "uniform":
        fn = lambda: f.splitUniform(arg, **kw)
        want = want_uniform(E, arg, pre, post, act)
    elif kind == "nonuniform":
        fn = lambda: f.splitNonUniform(list(arg), **kw)
        want = parts_from_bounds(E, list(arg), pre, post, act)
    elif kind == "equal":
        fn = lambda: f.splitEqual(arg, **kw)
        want = parts_from_bounds(E, bounds_equal(E, arg, act), pre, post, act)
    elif kind == "unequal":
        fn = lambda: f.splitUnEqual(list(arg), **kw)
        want = parts_from_bounds(E, bounds_unequal(E, list(arg), act), pre, post, act)
    elif kind == "truediv":
        step = (n + arg - 1) // arg
        fn = lambda: f / arg
        want = want_uniform(E, step, 0, 0, act)
    elif kind == "floordiv":
        occ = len(f.coords)
        step = (occ + arg - 1) // arg
        if step == 0:
            return
        fn = lambda: f // arg
        want = parts_from_bounds(E, bounds_equal(E, step, act), 0, 0, act)
    ok, r = guarded(rec, part, case, fn, "split does not raise")
    if not ok:
        return
    if raw(f) != before:
        rec.violation(part, "split changed its operand", case, "the original is unchanged", None, None)
    if compare(rec, part, case, r, want, relative, kind) and pre == 0 and post == 0:
        # lossless: every active non-empty element exactly once, in order
        flat = [(s + c if relative else c) for s, lower in zip(r.coords, r.payloads) for c in lower.coords]
        exp = [c for c, _ in E if act[0] <= c < act[1]]
        if flat != exp:
            rec.violation(part, "elements lost or duplicated", case, "the lower fibers together contain every active non-empty element exactly once, in order", flat, exp)


def check_nested(rec, part, n, spec, step1, step2):
    """Partitions of partitions still tile the original."""
    case = dict(n=n, spec=_ser(spec), step1=step1, step2=step2, nested=True)
    f = build_fiber(spec, 1, shape=n)
    E = elements(f)
    ok, r = guarded(rec, part, case, lambda: f.splitUniform(step1), "outer split")
    if not ok:
        return
    seen = []
    for s1, lower in zip(r.coords, r.payloads):
        ok, rr = guarded(rec, part, case, lambda: lower.splitUniform(step2), "inner split")
        if not ok:
            return
        El = elements(lower)
        want = want_uniform(El, step2, 0, 0, tuple(lower.getActive()))
        if not compare(rec, part, dict(case, outer=s1), rr, want, False, "nested uniform"):
            return
        for s2, ll in zip(rr.coords, rr.payloads):
            a0, a1 = ll.getActive()
            if not (s1 <= a0 and a1 <= s1 + step1):
                rec.violation(part, "inner partition's active range leaves the outer partition", dict(case, outer=s1, inner=s2),
                              "partitions of partitions still tile the original", (a0, a1), (s1, s1 + step1))
                return
            seen += list(ll.coords)
    if seen != [c for c, _ in E]:
        rec.violation(part, "nested split lost or duplicated elements", case, "partitions of partitions still tile the original", seen, [c for c, _ in E])


def check_tensor(rec, part, depth, n, spec, kind, arg, sdepth):
    case = dict(depth=depth, n=n, spec=_ser(spec), kind=kind, arg=arg, sdepth=sdepth, tensor=True)
    t = build_tensor(spec, depth, n)
    fn = {"uniform": lambda: t.splitUniform(arg, depth=sdepth), "equal": lambda: t.splitEqual(arg, depth=sdepth),
          "nonuniform": lambda: t.splitNonUniform(list(arg), depth=sdepth), "unequal": lambda: t.splitUnEqual(list(arg), depth=sdepth)}[kind]
    ok, r = guarded(rec, part, case, fn, "tensor split does not raise")
    if not ok:
        return

    def walk(orig, res, d):
        if d == sdepth:
            E = elements(orig)
            act = (0, n)
            if kind == "uniform":
                want = want_uniform(E, arg, 0, 0, act)
            elif kind == "equal":
                want = parts_from_bounds(E, bounds_equal(E, arg, act), 0, 0, act)
            elif kind == "nonuniform":
                want = parts_from_bounds(E, list(arg), 0, 0, act)
            else:
                want = parts_from_bounds(E, bounds_unequal(E, list(arg), act), 0, 0, act)
            return compare(rec, part, case, res, want, False, "tensor %s at depth %d" % (kind, sdepth))
        oc = [(c, p) for c, p in zip(orig.coords, orig.payloads)]
        rc = [(c, p) for c, p in zip(res.coords, res.payloads)]
        if [c for c, _ in oc] != [c for c, _ in rc]:
            rec.violation(part, "ranks above the split changed", case, "ranks above the split depth are unchanged", [c for c, _ in rc], [c for c, _ in oc])
            return False
        return all(walk(p, q, d + 1) for (_, p), (_, q) in zip(oc, rc))
    walk(t.getRoot(), r.getRoot(), 0)


def run(tier, seed):
    rec = Recorder("C08", tier, seed, budget_s=100 if tier == "quick" else 900)
    rnd = random.Random(seed)
    n = 5 if tier == "quick" else 6
    sp = list(specs1(n, vals=(0, 1)))
    halos = [(0, 0), (1, 0), (0, 1), (1, 1), (2, 1)]
    actives = [None, (1, n - 1), (2, n), (0, 3)]
    for spec in sp:
        if rec.out_of_time():
            break
        for active in actives:
            for relative in (False, True):
                for pre, post in halos:
                    for step in range(1, n + 2):
                        rec.case("uniform", (spec_key(spec), active, relative, pre, post, step), sample=dict(spec=_ser(spec), step=step, pre=pre, post=post))
                        check_fiber(rec, "uniform", n, spec, active, "uniform", step, pre, post, relative)
                    if (pre, post) in ((0, 0), (1, 1)):
                        for step in range(1, n + 1):
                            rec.case("equal", (spec_key(spec), active, relative, pre, post, step))
                            check_fiber(rec, "equal", n, spec, active, "equal", step, pre, post, relative)
                        for sizes in ([1], [2], [1, 1], [1, 2], [2, 1, 1], [3, 1]):
                            rec.case("unequal", (spec_key(spec), active, relative, pre, post, tuple(sizes)))
                            check_fiber(rec, "unequal", n, spec, active, "unequal", sizes, pre, post, relative)
                        for splits in ([0], [0, 2], [0, 1, 3], [0, 3, 4], [0, 1, 2, 3, 4], [0, n]):
                            rec.case("nonuniform", (spec_key(spec), active, relative, pre, post, tuple(splits)))
                            check_fiber(rec, "nonuniform", n, spec, active, "nonuniform", splits, pre, post, relative)
        for k in (1, 2, 3):
            rec.case("division", (spec_key(spec), k))
            check_fiber(rec, "division", n, spec, None, "truediv", k, 0, 0, False)
            check_fiber(rec, "division", n, spec, None, "floordiv", k, 0, 0, False)
        for s1, s2 in ((2, 1), (3, 2), (4, 2), (4, 3), (2, 2)):
            rec.case("nested", (spec_key(spec), s1, s2))
            check_nested(rec, "nested", n, spec, s1, s2)
    for depth, nn, pool in ((2, 3, list(specs(2, 3, vals=(0, 1), sub_limit=8))),):
        rnd.shuffle(pool)
        for spec in pool[:250 if tier == "quick" else 3000]:
            if rec.out_of_time():
                break
            for sdepth in range(depth):
                for kind, arg in (("uniform", 1), ("uniform", 2), ("equal", 1), ("equal", 2), ("nonuniform", [0, 1]), ("nonuniform", [0, 2]), ("unequal", [1, 1])):
                    rec.case("tensor", (spec_key(spec), kind, repr(arg), sdepth))
                    check_tensor(rec, "tensor", depth, nn, spec, kind, arg, sdepth)
    for _ in range(150 if tier == "quick" else 3000):
        if rec.out_of_time():
            break
        spec = random_spec(rnd, 3, 3)
        kind, arg = rnd.choice([("uniform", 2), ("equal", 2), ("nonuniform", [0, 1]), ("unequal", [2, 1]), ("uniform", 1)])
        sdepth = rnd.choice([0, 1, 2])
        rec.case("tensor", (spec_key(spec), kind, repr(arg), sdepth, 3))
        check_tensor(rec, "tensor", 3, 3, spec, kind, arg, sdepth)
    # at scale: partitions holding many elements (dense fibers, large steps), then seeded random fibers far outside the enumerated scope
    for nn in (200, 330):
        spec = {c: (0 if c % 17 == 3 else 1) for c in range(nn) if c % 23 != 5}
        for step in (70, 100):
            for relative in (False, True):
                for pre, post in ((0, 0), (2, 1)):
                    rec.case("scale", ("dense", nn, step, relative, pre, post))
                    check_fiber(rec, "scale", nn, spec, None, "uniform", step, pre, post, relative)
        for sizes in ([80, 80], [70, 1, 90]):
            rec.case("scale", ("dense-unequal", nn, tuple(sizes)))
            check_fiber(rec, "scale", nn, spec, None, "unequal", sizes, 0, 0, True)
        rec.case("scale", ("dense-equal", nn))
        check_fiber(rec, "scale", nn, spec, None, "equal", 75, 0, 0, True)
        rec.case("scale", ("dense-nonuniform", nn))
        check_fiber(rec, "scale", nn, spec, None, "nonuniform", [0, 80, 170], 0, 1, True)
    for _ in range(100 if tier == "quick" else 1000):
        if rnd.random() < 0.5:      # dense: partitions with many elements
            nn = rnd.choice([90, 200, 330])
            spec = {c: rnd.choice([1, 1, 0]) for c in range(nn) if rnd.random() < 0.95}
        else:
            spec, nn = scale_spec(rnd, vals=(0, 1), count=rnd.choice([12, 40, 90]))
        relative = rnd.random() < 0.6
        pre, post = rnd.choice([(0, 0), (0, 0), (1, 0), (0, 2), (3, 3)])
        active = rnd.choice([None, None, (rnd.randrange(nn // 2), nn // 2 + rnd.randrange(nn // 2 + 1))])
        kind = rnd.choice(["uniform", "uniform", "equal", "nonuniform", "unequal"])
        if kind == "uniform":
            arg = rnd.choice([7, 33, 70, 70, 100, 100, nn])
        elif kind == "equal":
            arg = rnd.choice([5, 20, 66, 80])
        elif kind == "nonuniform":
            arg = sorted(set([0] + [rnd.randrange(nn) for _q in range(rnd.randint(1, 14))]))
        else:
            arg = [rnd.randint(1, 30) for _q in range(rnd.randint(1, 12))]
        rec.case("scale", (spec_key(spec), repr(active), relative, pre, post, kind, repr(arg)))
        check_fiber(rec, "scale", nn, spec, active, kind, arg, pre, post, relative)
    return rec.result("every fiber over %d coordinates with payloads {absent,0,1} x active range x relativeCoords x halo (pre,post) x every step / "
                      "boundary list / size list; division shorthands; nested re-splits; tensor-level splits at every depth of depth-2/3 tensors with "
                      "empty sub-fibers; plus seeded random fibers at scale (up to 330 coordinates, partitions of 60+ elements); "
                      "expected partitions recomputed from the element list by the statement's interval rule" % n)


def replay(case):
    rec = Recorder("C08", "replay", 0)
    if case.get("tensor"):
        check_tensor(rec, "replay", case["depth"], case["n"], _deser(case["spec"]), case["kind"], case["arg"], case["sdepth"])
    elif case.get("nested"):
        check_nested(rec, "replay", case["n"], _deser(case["spec"]), case["step1"], case["step2"])
    else:
        check_fiber(rec, "replay", case["n"], _deser(case["spec"]), case["active"], case["kind"], case["arg"], case["pre"], case["post"], case["relative"])
    if rec.violations:
        v = rec.violations[0]
        return False, "REPRODUCED: %s: %s (observed %s, expected %s)" % (v["what"], v["clause"], v["observed"], v["expected"])
    return True, "not reproduced"


if __name__ == "__main__":
    raise SystemExit(main(__import__("C08")))
