"""Bounded stand-in for C01: well-formedness after every step of every short history (CPython cross-check of the
inductive argument proved by pyvc: constructors establish WF, every mutator preserves it, rejections change nothing)."""
import itertools
import random

from common import Recorder, guarded, main
from gen import specs, build_fiber, build_tensor, spec_key, random_spec, scale_spec
from history import apply_op, op_universe, root_of
from spec.oracle import wf_problems, raw


def check_history(rec, part, depth, n, spec, ops, owned):
    x = build_tensor(spec, depth, n) if owned else build_fiber(spec, depth, shape=n)
    case = dict(depth=depth, n=n, spec=_ser(spec), ops=ops, owned=owned)
    probs = wf_problems(root_of(x), depth)
    if probs:
        rec.violation(part, "constructor result is not well-formed", case, "WF after construction", probs)
        return
    tainted = False
    for i, op in enumerate(ops):
        if op[0] in ("append", "setitem") and len(op[1]) < depth - 1:
            # a bare sub-fiber stored into an interior fiber is not registered with the next rank (known finding of C02):
            # it does not know its depth, so later insertions below it go wrong
            tainted = True
        before = raw(root_of(x))
        try:
            status, _ = apply_op(x, op, depth)
        except Exception as e:   # an undocumented exception type escaping a mutator
            rec.violation(part, "mutator raised %s" % type(e).__name__, dict(case, step=i),
                          "mutators either succeed or reject with AssertionError/CoordinateError/IndexError", repr(e))
            return
        after = raw(root_of(x))
        probs = wf_problems(root_of(x), depth)
        if probs:
            clause = "WF after every step (%s)" % op[0]
            if tainted:
                clause = "WF after a step that follows append/position-assignment of a bare sub-fiber into an interior fiber"
            rec.violation(part, "tree not well-formed after %s" % op[0], dict(case, step=i), clause, probs)
            return
        if status == "rejected" and after != before and op[0] in ("setitem", "setitem_val", "append", "extend"):
            rec.violation(part, "rejected %s changed the tree" % op[0], dict(case, step=i),
                          "an operation rejected for violating coordinate order leaves the tree exactly as it was (%s)" % op[0],
                          after, before)
            return


def _ser(spec):
    return {str(k): (_ser(v) if isinstance(v, dict) else v) for k, v in spec.items()}


def _deser(spec):
    return {int(k): (_deser(v) if isinstance(v, dict) else v) for k, v in spec.items()}


def run(tier, seed):
    rec = Recorder("C01", tier, seed, budget_s=100 if tier == "quick" else 900)
    rnd = random.Random(seed)
    n = 3
    # depth 1: every initial fiber x every single op, and every pair of ops from a reduced universe
    uni1 = op_universe(1, n)
    for spec in specs(1, n):
        for owned in (False, True):
            for op in uni1:
                rec.case("depth1-single", (spec_key(spec), owned, repr(op)), sample=dict(spec=_ser(spec), ops=[op]))
                check_history(rec, "depth1-single", 1, n, spec, [op], owned)
    small = [op for op in uni1 if op[0] in ("ref", "append", "setitem", "clear", "populate", "update_payloads", "update_coords",
                                            "range_ref", "imul_scalar", "fiber_imul", "extend", "posref")]
    pairs = list(itertools.product(small, small))
    rnd.shuffle(pairs)
    lim = 3000 if tier == "quick" else 40000
    for spec in [{}, {0: 0, 2: 1}, {1: 2}, {0: 1, 1: 0, 2: 2}]:
        for a, b in pairs[:lim]:
            if rec.out_of_time():
                break
            rec.case("depth1-pairs", (spec_key(spec), repr(a), repr(b)))
            check_history(rec, "depth1-pairs", 1, n, spec, [a, b], True)
    # depth 2: sampled initial trees (explicit defaults, empty sub-fibers) x single ops, then random histories
    uni2 = op_universe(2, 2)
    d2 = list(specs(2, 2))
    for spec in d2:
        if rec.out_of_time():
            break
        for op in uni2:
            rec.case("depth2-single", (spec_key(spec), repr(op)), sample=dict(spec=_ser(spec), ops=[op]))
            check_history(rec, "depth2-single", 2, 2, spec, [op], True)
    hist_len = 3 if tier == "quick" else 5
    count = 1500 if tier == "quick" else 30000
    uni2b = op_universe(2, 3)
    for _ in range(count):
        if rec.out_of_time():
            break
        spec = random_spec(rnd, 2, 3)
        ops = [rnd.choice(uni2b) for _ in range(hist_len)]
        rec.case("depth2-random-history", (spec_key(spec), repr(ops)))
        check_history(rec, "depth2-random-history", 2, 3, spec, ops, True)
    uni3 = op_universe(3, 2)
    for _ in range(300 if tier == "quick" else 5000):
        if rec.out_of_time():
            break
        spec = random_spec(rnd, 3, 2)
        ops = [rnd.choice(uni3) for _ in range(hist_len)]
        rec.case("depth3-random-history", (spec_key(spec), repr(ops)))
        check_history(rec, "depth3-random-history", 3, 2, spec, ops, True)
    # at scale: seeded random histories on fibers far outside the enumerated scope
    for _ in range(60 if tier == "quick" else 800):
        if rec.out_of_time():
            break
        spec, nn = scale_spec(rnd, count=rnd.choice([10, 25, 60]))
        cs = sorted(spec)
        ops = []
        for _j in range(rnd.randint(1, 4)):
            c = rnd.choice([rnd.choice(cs), rnd.choice(cs) + 1, rnd.randrange(nn), max(cs) + 1 + rnd.randrange(3)])
            k = rnd.randrange(8)
            if k == 0:
                ops.append(["ref", [min(c, nn - 1)], rnd.choice(["none", "set", "add"]), rnd.choice([0, 1, 2])])
            elif k == 1:
                ops.append(["append", [], c, 1])
            elif k == 2:
                ops.append(["posref", [], min(c, nn - 1)])
            elif k == 3:
                ops.append(["setitem", [], rnd.randrange(len(cs)), min(c, nn - 1), 2])
            elif k == 4:
                ops.append(["setitem_val", [], rnd.randrange(len(cs)), rnd.choice([0, 2])])
            elif k == 5:
                lo = rnd.randrange(nn)
                ops.append(["range_ref", [], lo, min(nn, lo + rnd.randint(0, 12))])
            elif k == 6:
                src, _n2 = scale_spec(rnd, vals=(1, 2), count=rnd.choice([2, 5, 15]), maxcoord=nn)
                ops.append(["populate", [], dict(src), [rnd.choice(["assign", "leave", "acc", "reset"]) for _q in range(rnd.randint(1, 3))]])
            else:
                ops.append(["clear", []] if rnd.random() < 0.2 else ["imul_scalar", [], rnd.choice([0, 2])])
        owned = rnd.random() < 0.5
        rec.case("scale", (spec_key(spec), repr(ops), owned))
        check_history(rec, "scale", 1, nn, spec, ops, owned)
    return rec.result("depth 1: every fiber over 3 coordinates with payloads {absent,0,1,2} x every op of the universe (owned and free-standing), "
                      "plus op pairs; depth 2: every tree over 2 coordinates x every op, plus seeded random histories over 3 coordinates; "
                      "depth 3: seeded random histories; plus seeded random depth-1 histories at scale (10-60 elements). Checked after every step. "
                      "Non-trivial = distinct (initial tree, history).")


def replay(case):
    rec = Recorder("C01", "replay", 0)
    check_history(rec, "replay", case["depth"], case["n"], _deser(case["spec"]), case["ops"], case["owned"])
    if rec.violations:
        v = rec.violations[0]
        return False, "REPRODUCED: %s: %s (observed %s)" % (v["what"], v["clause"], v["observed"])
    return True, "not reproduced"


if __name__ == "__main__":
    raise SystemExit(main(__import__("C01")))
