"""Bounded stand-in / CPython cross-check for C18: format footprints against sums recomputed from a raw walk."""
import copy
import itertools
import random

from common import Recorder, guarded, main
from gen import specs, build_tensor, spec_key, random_spec
from spec.oracle import raw, is_fiber, unbox

from fibertree import Fiber, Tensor, Payload
from fibertree.model.format import Format


def _ser(spec):
    return {str(k): (_ser(v) if isinstance(v, dict) else v) for k, v in spec.items()}


def _deser(spec):
    return {int(k): (_deser(v) if isinstance(v, dict) else v) for k, v in spec.items()}


def nonempty(p):
    if is_fiber(p):
        return any(nonempty(q) for q in p.payloads)
    return unbox(p) != 0


DEFAULTS = {"rhbits": 0, "fhbits": 0, "cbits": 0, "pbits": 0, "format": "C", "layout": "contiguous"}


def full(fmt, rank):
    d = dict(DEFAULTS)
    d.update(fmt.get(rank, {}))
    return d


def fiber_fp(f, d, n):
    num = len(f.coords) if d["format"] == "C" else n
    return d["fhbits"] + (d["cbits"] + d["pbits"]) * num


def subtree_fp(f, level, ids, fmt, n):
    """Sum over exactly the fibers reachable below f: through non-empty stored elements of a compressed rank, through every
    coordinate of the shape of an uncompressed one (absent children counting as empty fibers)."""
    d = full(fmt, ids[level])
    total = fiber_fp(f, d, n)
    if level == len(ids) - 1:
        return total
    stored = dict(zip(f.coords, f.payloads))
    if d["format"] == "U":
        for c in range(n):
            child = stored.get(c)
            if child is None:
                total += empty_subtree_fp(level + 1, ids, fmt, n)
            else:
                total += subtree_fp(child, level + 1, ids, fmt, n)
    else:
        for c, p in zip(f.coords, f.payloads):
            if nonempty(p):
                total += subtree_fp(p, level + 1, ids, fmt, n)
    return total


def empty_subtree_fp(level, ids, fmt, n):
    d = full(fmt, ids[level])
    total = d["fhbits"] + (d["cbits"] + d["pbits"]) * (0 if d["format"] == "C" else n)
    if level < len(ids) - 1 and d["format"] == "U":
        total += n * empty_subtree_fp(level + 1, ids, fmt, n)
    return total


def check(rec, part, depth, n, spec, fmt):
    case = dict(depth=depth, n=n, spec=_ser(spec), fmt=fmt)
    t = build_tensor(spec, depth, n)
    ids = t.getRankIds()
    before = raw(t.getRoot())
    given = copy.deepcopy(fmt)
    ok, F = guarded(rec, part, case, lambda: Format(t, copy.deepcopy(fmt)), "Format construction")
    if not ok:
        return
    # defaults of missing fields
    for r in ids:
        for fld, dv in DEFAULTS.items():
            want = given.get(r, {}).get(fld, dv)
            if F.spec[r][fld] != want:
                rec.violation(part, "missing field not defaulted / present field changed", dict(case, rank=r, field=fld),
                              "missing specification fields default to zero bits, compressed format and contiguous layout", F.spec[r][fld], want)
                return
    root_d = {"hbits": 0, "pbits": 0}
    root_d.update(given.get("root", {}))
    want_root = root_d["hbits"] + root_d["pbits"]
    ok, g = guarded(rec, part, case, lambda: F.getRoot())
    if ok and g != want_root:
        rec.violation(part, "root footprint wrong", case, "the root's footprint is its header plus payload bits", g, want_root)
    # levels by raw walk
    levels = [[] for _ in ids]

    def walk(f, d):
        levels[d].append(f)
        for p in f.payloads:
            if is_fiber(p):
                walk(p, d + 1)
    walk(t.getRoot(), 0)
    total = want_root
    for i, r in enumerate(ids):
        d = full(given, r)
        want = d["rhbits"] + sum(fiber_fp(f, d, n) for f in levels[i])
        total += want
        ok, g = guarded(rec, part, dict(case, rank=r), lambda: F.getRank(r))
        if ok and g != want:
            rec.violation(part, "rank footprint wrong", dict(case, rank=r), "a rank's footprint is its header plus that of all its fibers", g, want)
        for typ, w in (("coord", d["cbits"]), ("payload", d["pbits"]), ("elem", d["cbits"] + d["pbits"])):
            ok, g = guarded(rec, part, dict(case, rank=r, type=typ), lambda: F.getElem(r, typ))
            if ok and g != w:
                rec.violation(part, "element width wrong", dict(case, rank=r, type=typ), "element widths as specified", g, w)
    ok, g = guarded(rec, part, case, lambda: F.getTensor())
    if ok and g != total:
        rec.violation(part, "tensor footprint wrong", case, "the tensor's footprint is the root's plus all ranks'", g, total)
    # per-fiber and sub-tree footprints at every stored prefix
    def prefixes(f, d, pre):
        yield pre, f, d
        if d < len(ids) - 1:
            for c, p in zip(f.coords, f.payloads):
                if is_fiber(p):
                    yield from prefixes(p, d + 1, pre + (c,))
    for pre, f, d in prefixes(t.getRoot(), 0, ()):
        dd = full(given, ids[d])
        ok, g = guarded(rec, part, dict(case, prefix=list(pre)), lambda: F.getFiber(*pre))
        if ok and g != fiber_fp(f, dd, n):
            rec.violation(part, "fiber footprint wrong", dict(case, prefix=list(pre)),
                          "a fiber's footprint is its header plus (coordinate + payload bits) x (occupancy if compressed, shape if uncompressed)", g, fiber_fp(f, dd, n))
        want = subtree_fp(f, d, ids, given, n)
        ok, g = guarded(rec, part, dict(case, prefix=list(pre)), lambda: F.getSubTree(*pre))
        if ok and g != want:
            rec.violation(part, "sub-tree footprint wrong", dict(case, prefix=list(pre)),
                          "a sub-tree's footprint sums exactly the fibers reachable below the point", g, want)
    if raw(t.getRoot()) != before:
        rec.violation(part, "footprint queries changed the tensor", case, "footprint queries are read-only", None, None)


def fmt_choices(ids, rnd, exhaustive_formats=True):
    widths = (0, 1, 3)
    for fmts in itertools.product("CU", repeat=len(ids)):
        for variant in range(3):
            f = {}
            for r, fm in zip(ids, fmts):
                row = {"format": fm, "cbits": rnd.choice(widths), "pbits": rnd.choice(widths), "fhbits": rnd.choice(widths), "rhbits": rnd.choice(widths)}
                if variant == 1:
                    for k in list(row):
                        if rnd.random() < 0.4 and not (k == "format" and fm == "U"):
                            del row[k]
                if variant == 2 and fm == "C":
                    row = {}
                f[r] = row
            if variant != 2:
                f["root"] = {"hbits": rnd.choice(widths), "pbits": rnd.choice(widths)}
            yield f


def run(tier, seed):
    rec = Recorder("C18", tier, seed, budget_s=100 if tier == "quick" else 900)
    rnd = random.Random(seed)
    from gen import specs1
    for spec in specs1(3, vals=(0, 1)):
        for fmt in fmt_choices(["M"], rnd):
            rec.case("depth1", (spec_key(spec), repr(fmt)), sample=dict(spec=_ser(spec), fmt=fmt))
            check(rec, "depth1", 1, 3, spec, fmt)
    s2 = list(specs(2, 2))
    for spec in s2[::1 if tier != "quick" else 2]:
        for fmt in fmt_choices(["M", "N"], rnd):
            rec.case("depth2", (spec_key(spec), repr(fmt)))
            check(rec, "depth2", 2, 2, spec, fmt)
    for _ in range(400 if tier == "quick" else 6000):
        if rec.out_of_time():
            break
        n = rnd.choice([2, 3])
        spec = random_spec(rnd, 3, n, p_present=0.6)
        fmt = rnd.choice(list(fmt_choices(["M", "N", "K"], rnd)))
        rec.case("depth3", (spec_key(spec), repr(fmt)))
        check(rec, "depth3", 3, n, spec, fmt)
    # at scale: ranks holding many fibers, long fibers
    for _ in range(25 if tier == "quick" else 300):
        rows = rnd.choice([10, 14, 24])
        cols = rnd.choice([6, 14, 30])
        spec = {r: {c: rnd.choice([0, 1, 2]) for c in range(cols) if rnd.random() < rnd.choice([0.15, 0.5, 0.9])} for r in range(rows) if rnd.random() < 0.9}
        nn = max(rows, cols)
        fmt = rnd.choice(list(fmt_choices(["M", "N"], rnd)))
        rec.case("scale", (spec_key(spec), repr(fmt)))
        check(rec, "scale", 2, nn, spec, fmt)
        leaf = {c: rnd.choice([0, 1]) for c in range(40) if rnd.random() < 0.7}
        fmt1 = rnd.choice(list(fmt_choices(["M"], rnd)))
        rec.case("scale", (spec_key(leaf), repr(fmt1)))
        check(rec, "scale", 1, 40, leaf, fmt1)
    return rec.result("every fiber over 3 coordinates and every depth-2 tree over 2 coordinates (explicit defaults, empty sub-fibers) x every C/U format "
                      "assignment x random widths from {0,1,3} incl. specs with missing fields; seeded random depth-3 tensors; getRoot/getElem/getFiber/"
                      "getRank/getTensor/getSubTree at every stored prefix against sums recomputed from a raw walk of the tree; plus seeded random depth-2 tensors "
                      "at scale (10-24 fibers in the lower rank, fibers of up to 30 elements) and 40-coordinate leaf fibers")


def replay(case):
    rec = Recorder("C18", "replay", 0)
    check(rec, "replay", case["depth"], case["n"], _deser(case["spec"]), case["fmt"])
    if rec.violations:
        v = rec.violations[0]
        return False, "REPRODUCED: %s: %s (observed %s, expected %s)" % (v["what"], v["clause"], v["observed"], v["expected"])
    return True, "not reproduced"


if __name__ == "__main__":
    raise SystemExit(main(__import__("C18")))
