"""Bounded stand-in for C04: co-iteration operators against set operations on what the operands present."""
import itertools
import random

from common import Recorder, guarded, main
from gen import specs, specs1, build_fiber, build_tensor, spec_key, random_spec, scale_spec
from spec.oracle import raw, is_fiber, is_box, unbox, tensor_snapshot

from fibertree import Fiber, Tensor, Payload


def _ser(spec):
    return {str(k): (_ser(v) if isinstance(v, dict) else v) for k, v in spec.items()}


def _deser(spec):
    def key(k):
        if isinstance(k, str) and k.startswith("("):
            return tuple(int(x) for x in k.strip("()").split(",") if x.strip())
        return int(k)
    return {key(k): (_deser(v) if isinstance(v, dict) else v) for k, v in spec.items()}


def empty_payload(p, default=0):
    if is_fiber(p):
        return all(empty_payload(q, default) for q in p.payloads)
    return unbox(p) == default


def presented(f, default=0, fmt="C", active=None):
    """(coord, stored payload or None) the fiber presents: non-empty elements (C) or every coordinate of the active range (U)."""
    if fmt == "C":
        return [(c, p) for c, p in zip(f.coords, f.payloads) if not empty_payload(p, default)]
    lo, hi = active
    stored = dict(zip(f.coords, f.payloads))
    return [(c, stored.get(c)) for c in range(lo, hi)]


def make_operand(spec, depth, owned, n, fmt="C", name="T"):
    if owned:
        t = build_tensor(spec, depth, n, name=name)
        if fmt == "U":
            t.setFormat(t.getRankIds()[0], "U")
        return t, t.getRoot()
    f = build_fiber(spec, depth, shape=n)
    if fmt == "U":
        f.getRankAttrs().setFormat("U")
    return None, f


def snap(t, f):
    return (tensor_snapshot(t) if t is not None else None, raw(f))


def check_pair(rec, part, depth, n, aspec, bspec, owned, fmt_a="C", fmt_b="C"):
    case = dict(depth=depth, n=n, a=_ser(aspec), b=_ser(bspec), owned=owned, fmt_a=fmt_a, fmt_b=fmt_b)
    ta, a = make_operand(aspec, depth, owned, n, fmt_a, "A")
    tb, b = make_operand(bspec, depth, owned, n, fmt_b, "B")
    A = presented(a, 0, fmt_a, (0, n))
    B = presented(b, 0, fmt_b, (0, n))
    ca, cb = [c for c, _ in A], [c for c, _ in B]
    da, db = dict(A), dict(B)
    before = (snap(ta, a), snap(tb, b))
    for opname, fn, want in (
            ("&", lambda: a & b, sorted(set(ca) & set(cb))),
            ("|", lambda: a | b, sorted(set(ca) | set(cb))),
            ("^", lambda: a ^ b, sorted(set(ca) ^ set(cb))),
            ("-", lambda: a - b, sorted(set(ca) - set(cb)))):
        c2 = dict(case, op=opname)
        ok, res = guarded(rec, part, c2, lambda: [(c, p) for c, p in fn()], "co-iteration does not raise (%s)" % opname)
        if not ok:
            continue
        got = [c for c, _ in res]
        if got != want:
            clause = "coordinates of a %s b == set operation on presented coordinates, ascending, once" % opname
            if opname == "-" and fmt_a == "U":
                clause = "coordinates of a - b when a's rank is declared uncompressed (default-valued elements of a are presented)"
            rec.violation(part, "wrong coordinates", c2, clause, got, want)
            continue
        absent_ids = []
        for c, p in res:
            p = unbox(p) if opname != "-" else p
            if opname == "&":
                pa, pb = p
                exp_a, exp_b = da[c], db[c]
                if (exp_a is not None and pa is not exp_a) or (exp_b is not None and pb is not exp_b):
                    rec.violation(part, "payload is not the operand's stored payload", c2, "payloads of a & b are the operands' own stored payloads", None, None)
            elif opname == "-":
                if da[c] is not None and p is not da[c]:
                    rec.violation(part, "payload is not a's stored payload", c2, "payloads of a - b are a's own stored payloads", None, None)
            else:
                mask, pa, pb = p
                wmask = ("A" if c in da else "") + ("B" if c in db else "")
                if mask != wmask:
                    rec.violation(part, "wrong mask", c2, "mask of a %s b names exactly the sides present" % opname, mask, wmask)
                    continue
                for side, got_p, d, other in (("A", pa, da, a), ("B", pb, db, b)):
                    if side in wmask:
                        if d[c] is not None and got_p is not d[c]:
                            rec.violation(part, "payload is not the operand's stored payload", c2, "present side delivers the stored payload (%s)" % opname, None, None)
                    else:
                        # fresh default for the absent side: not an object stored in either operand, holding the default
                        absent_ids.append(id(got_p))
                        if any(got_p is q for q in other.payloads):
                            rec.violation(part, "absent side delivered a stored payload", c2, "absent side gets a fresh default (%s)" % opname, None, None)
                        if (is_box(got_p) and got_p.value != 0) or (is_fiber(got_p) and len(got_p.coords) != 0):
                            rec.violation(part, "absent side is not the default", c2, "absent side gets the default (%s)" % opname, got_p, 0)
        if len(set(absent_ids)) != len(absent_ids):
            rec.violation(part, "the same default object delivered at two coordinates", c2,
                          "the absent side gets a FRESH default at every coordinate (%s)" % opname, None, None)
        after = (snap(ta, a), snap(tb, b))
        if after != before:
            rec.violation(part, "operand or its tensor modified", c2, "a %s b modifies neither the operands nor their tensors" % opname, None, None)
            before = after


def check_nary(rec, part, n, specs_, style):
    case = dict(n=n, specs=[_ser(s) for s in specs_], style=style)
    fs = [build_fiber(s, 1, shape=n) for s in specs_]
    if style == "leader-follower-stale":
        # an earlier, unrelated search left a saved position behind in every follower
        for f in fs[1:]:
            if f.coords:
                f.getPayload(f.coords[-1], start_pos=0)
        style = "leader-follower"
    pres = [dict(presented(f)) for f in fs]
    before = [raw(f) for f in fs]
    if style in ("two-finger", "leader-follower"):
        if style == "two-finger":
            want = sorted(set.intersection(*[set(p) for p in pres]))
        else:
            want = sorted(pres[0])
        ok, res = guarded(rec, part, case, lambda: [(c, p) for c, p in Fiber.intersection(*fs, style=style)], "n-ary intersection does not raise")
        if not ok:
            return
        got = [c for c, _ in res]
        if got != want:
            rec.violation(part, "wrong coordinates", case, "n-ary intersection (%s) coordinates" % style, got, want)
            return
        for c, p in res:
            p = unbox(p)
            if not isinstance(p, tuple) or len(p) != len(fs):
                rec.violation(part, "payload tuple not flat", case, "n-ary payloads are flat tuples with one entry per operand", p, None)
                return
            for k, q in enumerate(p):
                stored = dict(zip(fs[k].coords, fs[k].payloads)).get(c)
                if style == "two-finger" or k == 0 or c in pres[k]:
                    if q is not stored:
                        rec.violation(part, "payload is not the stored payload", case, "n-ary intersection delivers stored payloads (%s)" % style, unbox(q), unbox(stored))
                        return
                else:
                    exp = unbox(stored) if stored is not None else 0
                    if unbox(q) != exp:
                        rec.violation(part, "follower payload wrong", case, "leader-follower: follower payload or default", unbox(q), exp)
                        return
    else:
        want = sorted(set.union(*[set(p) for p in pres]))
        ok, res = guarded(rec, part, case, lambda: [(c, p) for c, p in Fiber.union(*fs)], "n-ary union does not raise")
        if not ok:
            return
        got = [c for c, _ in res]
        if got != want:
            rec.violation(part, "wrong coordinates", case, "n-ary union coordinates", got, want)
            return
        for c, p in res:
            p = unbox(p)
            wmask = "".join(chr(ord("A") + k) for k in range(len(fs)) if c in pres[k])
            if p[0] != wmask or len(p) != len(fs) + 1:
                rec.violation(part, "wrong n-ary mask", case, "n-ary union mask names the operands present", p[0], wmask)
                return
            for k in range(len(fs)):
                if c in pres[k] and p[k + 1] is not pres[k][c]:
                    rec.violation(part, "payload is not the stored payload", case, "n-ary union delivers stored payloads", None, None)
                    return
    if [raw(f) for f in fs] != before:
        rec.violation(part, "operand modified", case, "n-ary co-iteration does not modify operands", None, None)


def check_tuple_prefix(rec, part, short, long_, arity_s, arity_l):
    """A fiber with shorter tuple coordinates matches on the common prefix."""
    case = dict(short=[list(c) if isinstance(c, tuple) else c for c in short], long=[list(c) for c in long_])
    a = Fiber(list(short), [1] * len(short))
    b = Fiber(list(long_), [2] * len(long_))

    def pre(c):
        c = c if isinstance(c, tuple) else (c,)
        return c
    want = [c for c in long_ if pre(c)[:arity_s] in {pre(s) for s in short}]
    for order, fn in (("short&long", lambda: a & b), ("long&short", lambda: b & a)):
        ok, res = guarded(rec, part, dict(case, order=order), lambda: [c for c, _ in fn()], "mixed-arity intersection does not raise")
        if ok and list(res) != want:
            rec.violation(part, "wrong prefix match", dict(case, order=order), "shorter tuple coordinates match on the common prefix", list(res), want)


def run(tier, seed):
    rec = Recorder("C04", tier, seed, budget_s=100 if tier == "quick" else 900)
    rnd = random.Random(seed)
    n = 3 if tier == "quick" else 4
    s1 = list(specs1(n, vals=(0, 1)))
    for a, b in itertools.product(s1, s1):
        for owned in (False, True):
            rec.case("depth1-pairs", (spec_key(a), spec_key(b), owned), nontrivial=bool(a or b), sample=dict(a=_ser(a), b=_ser(b)))
            check_pair(rec, "depth1-pairs", 1, n, a, b, owned)
    # uncompressed format: every coordinate of the active range is presented
    for a, b in itertools.product(s1[:40], s1[:40]):
        for fa, fb in (("U", "C"), ("C", "U"), ("U", "U")):
            rec.case("format-U", (spec_key(a), spec_key(b), fa, fb))
            check_pair(rec, "format-U", 1, n, a, b, True, fa, fb)
    # depth 2 with empty sub-fibers and explicit defaults, owned by tensors
    s2 = list(specs(2, 2))
    pairs = list(itertools.product(s2, s2))
    rnd.shuffle(pairs)
    for a, b in pairs[:1500 if tier == "quick" else 20000]:
        if rec.out_of_time():
            break
        for owned in (True, False):
            rec.case("depth2-pairs", (spec_key(a), spec_key(b), owned))
            check_pair(rec, "depth2-pairs", 2, 2, a, b, owned)
    # n-ary forms
    for k in (2, 3, 4):
        combos = list(itertools.product(list(specs1(3, vals=(0, 1))), repeat=k))
        rnd.shuffle(combos)
        for sp in combos[:300 if tier == "quick" else 3000]:
            for style in ("two-finger", "leader-follower", "leader-follower-stale", "union"):
                rec.case("n-ary", (k, tuple(spec_key(s) for s in sp), style))
                check_nary(rec, "n-ary", 3, list(sp), style)
    # mixed tuple arity
    t2 = list(itertools.product(range(2), repeat=2))
    t3 = list(itertools.product(range(2), repeat=3))
    for k1 in range(0, 3):
        for short in itertools.combinations(range(2), k1):
            for k2 in range(0, 4):
                for long_ in itertools.combinations(t2, k2):
                    rec.case("tuple-prefix", (short, long_))
                    check_tuple_prefix(rec, "tuple-prefix", list(short), list(long_), 1, 2)
    for k1 in range(0, 3):
        for short in itertools.combinations(t2, k1):
            for long_ in itertools.combinations(t3, 3):
                rec.case("tuple-prefix", (short, long_))
                check_tuple_prefix(rec, "tuple-prefix", list(short), list(long_), 2, 3)
    # at scale: seeded random operands far outside the enumerated scope (10-80 elements, coordinates up to several hundred)
    for _ in range(40 if tier == "quick" else 600):
        a, na = scale_spec(rnd, vals=(0, 1), count=rnd.choice([3, 10, 30, 80]))
        b, nb = scale_spec(rnd, vals=(0, 1), count=rnd.choice([3, 10, 30, 80]))
        if rnd.random() < 0.5:       # overlapping operands
            b.update({c: 1 for c in rnd.sample(sorted(a), len(a) // 2)})
        nn = max(na, nb, max(b) + 1)
        owned = rnd.random() < 0.5
        rec.case("scale", (spec_key(a), spec_key(b), owned))
        check_pair(rec, "scale", 1, nn, a, b, owned)
    return rec.result("all pairs of fibers over %d coordinates with payloads {absent,0,1} (free-standing and tensor-owned), both rank formats, sampled "
                      "depth-2 pairs with empty sub-fibers, k-ary forms (k<=4, both intersection styles, union), tuple coordinates of arity 1-3; "
                      "identity (is) of delivered payloads, masks, operand + rank-list snapshots; plus seeded random pairs at scale (10-80 elements, coordinates to 700)" % n)


def replay(case):
    rec = Recorder("C04", "replay", 0)
    if "specs" in case:
        check_nary(rec, "replay", case["n"], [_deser(s) for s in case["specs"]], case["style"])
    elif "short" in case:
        short = [tuple(c) if isinstance(c, list) else c for c in case["short"]]
        long_ = [tuple(c) for c in case["long"]]
        ar_s = len(short[0]) if short and isinstance(short[0], tuple) else 1
        check_tuple_prefix(rec, "replay", short, long_, ar_s, len(long_[0]) if long_ else 2)
    else:
        check_pair(rec, "replay", case["depth"], case["n"], _deser(case["a"]), _deser(case["b"]), case["owned"],
                   case.get("fmt_a", "C"), case.get("fmt_b", "C"))
    if rec.violations:
        v = rec.violations[0]
        return False, "REPRODUCED: %s: %s (observed %s, expected %s)" % (v["what"], v["clause"], v["observed"], v["expected"])
    return True, "not reproduced"


if __name__ == "__main__":
    raise SystemExit(main(__import__("C04")))
