"""Bounded stand-in for C10: value-returning operations neither disturb nor alias their operands; reads are reads."""
import copy
import itertools
import os
import random
import tempfile

from common import Recorder, guarded, main
from gen import specs1, specs, build_fiber, build_tensor, spec_key, random_spec, scale_spec
from spec.oracle import raw, is_fiber, is_box, unbox, content, tensor_snapshot, ident_set

from fibertree import Fiber, Tensor, Payload, TensorImage, TreeImage, UncompressedImage
from fibertree.model.format import Format


def _ser(spec):
    return {str(k): (_ser(v) if isinstance(v, dict) else v) for k, v in spec.items()}


def _deser(spec):
    return {int(k): (_deser(v) if isinstance(v, dict) else v) for k, v in spec.items()}


def attempt(rec, part, case, fn, clause=None):
    """C10 is about frames and aliasing, not about totality: an operation that raises is skipped here
    (the properties that own the operation decide whether raising is legitimate)."""
    try:
        return True, fn()
    except Exception:
        rec.parts["skipped-raises"] = rec.parts.get("skipped-raises", 0) + 1
        return False, None


def full_snapshot(t):
    """Tree, rank lists, rank ids (deep), shape, default, formats: what 'structurally identical' compares."""
    return (tensor_snapshot(t), copy.deepcopy(t.getRankIds()), copy.deepcopy(t.getShape()), repr(t.getDefault()),
            tuple(t.getFormat(r) for r in t.getRankIds()), t.getName())


def obj_ids(t):
    """ids of every mutable object a tensor is made of: fibers, boxes, coord/payload lists, ranks, rank attrs, rank-id lists."""
    out = set()
    root = t.getRoot()
    if is_fiber(root):
        out |= ident_set(root)
    for r in t.ranks:
        out.add(id(r))
        out.add(id(r.getAttrs()))
        out.add(id(r.getFibers()))
        rid = r.getId()
        if isinstance(rid, list):
            out.add(id(rid))
    return out


def fiber_obj_ids(f):
    out = ident_set(f)
    out.add(id(f.getRankAttrs()))
    return out


TENSOR_OPS = {
    "splitUniform": lambda t: t.splitUniform(2, depth=0),
    "splitUniform-d1": lambda t: t.splitUniform(2, depth=1),
    "splitNonUniform": lambda t: t.splitNonUniform([0, 1], depth=0),
    "splitEqual": lambda t: t.splitEqual(1, depth=0),
    "splitUnEqual": lambda t: t.splitUnEqual([1, 2], depth=0),
    "swizzle": lambda t: t.swizzleRanks(list(reversed(t.getRankIds()))),
    "swap": lambda t: t.swapRanks(depth=0),
    "flatten": lambda t: t.flattenRanks(depth=0, levels=1),
    "flatten-twice": lambda t: t.flattenRanks(depth=0, levels=1).flattenRanks(depth=0, levels=1) if len(t.getRankIds()) > 2 else None,
    "unflatten": lambda t: t.flattenRanks(depth=0, levels=1).unflattenRanks(depth=0, levels=1),
    "merge": lambda t: t.mergeRanks(depth=0, levels=1, coord_style="absolute", merge_fn=lambda ps: ps[0]),
    "updateCoords": lambda t: t.updateCoords(lambda i, c, p: c + 1, depth=0),
    "updatePayloads": lambda t: t.updatePayloads(lambda i, c, p: Payload(p.value + 1), depth=len(t.getRankIds()) - 1),
    "deepcopy": lambda t: copy.deepcopy(t),
}

# an operand prepared by an earlier transform (rank ids that are lists, split ranks, ...)
PREPS = {
    "plain": lambda t: t,
    "flattened": lambda t: t.flattenRanks(depth=0, levels=1),
    "split": lambda t: t.splitUniform(2, depth=0),
}


def mutate(t):
    """A follow-up mutation through the public interface (first leaf reachable, or a fresh path)."""
    root = t.getRoot()
    f = root
    path = []
    while True:
        if not f.coords:
            f.append(_zero_like(t, len(path)), _leaf_or_fiber(t, len(path)))
            return
        p = f.payloads[0]
        path.append(f.coords[0])
        if is_fiber(p):
            f = p
        else:
            p <<= 99
            return


def _zero_like(t, level):
    return 0


def _leaf_or_fiber(t, level):
    depth = len(t.getRankIds())
    return 5 if level == depth - 1 else Fiber([], [])


def check_tensor_op(rec, part, depth, n, spec, prep, opname):
    case = dict(depth=depth, n=n, spec=_ser(spec), prep=prep, op=opname)
    ok, t = attempt(rec, part, case, lambda: PREPS[prep](build_tensor(spec, depth, n)), "preparation runs")
    if not ok or t is None:
        return
    before = full_snapshot(t)
    ids_before = obj_ids(t)
    ok, r = attempt(rec, part, case, lambda: TENSOR_OPS[opname](t), "transform runs")
    if not ok or r is None:
        return
    if full_snapshot(t) != before:
        rec.violation(part, "operand changed by a value-returning operation", case,
                      "value-returning operations leave each operand structurally identical (%s)" % opname, full_snapshot(t), before)
        return
    shared = ids_before & obj_ids(r)
    if shared:
        rec.violation(part, "result shares a mutable object with the operand", case,
                      "the result shares no fiber, payload box, rank, attribute or rank-id object with the operand (%s)" % opname, len(shared), 0)
        return
    # later mutation of either side is invisible to the other
    snap_r = full_snapshot(r)
    ok, _ = attempt(rec, part, case, lambda: mutate(t), "follow-up mutation of the operand")
    if ok and full_snapshot(r) != snap_r:
        rec.violation(part, "mutating the operand changed the result", case, "later mutation of the operand is invisible to the result (%s)" % opname, None, None)
        return
    snap_t = full_snapshot(t)
    ok, _ = attempt(rec, part, case, lambda: mutate(r), "follow-up mutation of the result")
    if ok and full_snapshot(t) != snap_t:
        rec.violation(part, "mutating the result changed the operand", case, "later mutation of the result is invisible to the operand (%s)" % opname, None, None)


FIBER_OPS = {
    "add": lambda a, b: a + b, "mul": lambda a, b: a * b, "add-scalar": lambda a, b: a + 2, "mul-scalar": lambda a, b: a * 2,
    "radd-scalar": lambda a, b: 2 + a, "copy": lambda a, b: copy.copy(a) if False else a.copy() if False else copy.deepcopy(a),
    "splitUniform": lambda a, b: a.splitUniform(2), "splitEqual": lambda a, b: a.splitEqual(1),
    "splitNonUniform": lambda a, b: a.splitNonUniform([0, 2]), "splitUnEqual": lambda a, b: a.splitUnEqual([1, 1]),
    "div": lambda a, b: a / 2, "floordiv": lambda a, b: a // 2,
    "nonEmpty": lambda a, b: a.nonEmpty(),
}


def check_fiber_op(rec, part, n, aspec, bspec, opname, owned):
    case = dict(n=n, a=_ser(aspec), b=_ser(bspec), op=opname, owned=owned)
    if owned:
        ta, tb = build_tensor(aspec, 1, n, name="A"), build_tensor(bspec, 1, n, name="B")
        a, b = ta.getRoot(), tb.getRoot()
    else:
        ta = tb = None
        a, b = build_fiber(aspec, 1, shape=n), build_fiber(bspec, 1, shape=n)
    before = (raw(a), raw(b), tensor_snapshot(ta) if ta else None, tensor_snapshot(tb) if tb else None)
    ok, r = attempt(rec, part, case, lambda: FIBER_OPS[opname](a, b), "operation runs")
    if not ok or r is None:
        return
    after = (raw(a), raw(b), tensor_snapshot(ta) if ta else None, tensor_snapshot(tb) if tb else None)
    if after != before:
        rec.violation(part, "operand changed", case, "value-returning fiber operations leave the operands as they were (%s)" % opname, None, None)
        return
    if not is_fiber(r):
        return
    shared = (fiber_obj_ids(a) | fiber_obj_ids(b)) & fiber_obj_ids(r)
    if shared and opname != "nonEmpty":
        rec.violation(part, "result shares a mutable object with an operand", case,
                      "the result shares no fiber, payload box or attribute object with the operands (%s)" % opname, len(shared), 0)


def check_reads(rec, part, depth, n, spec):
    case = dict(depth=depth, n=n, spec=_ser(spec))
    t = build_tensor(spec, depth, n)
    root = t.getRoot()
    other = build_tensor(spec, depth, n, name="O")
    before = full_snapshot(t)
    d = tempfile.mkdtemp(prefix="c10-")
    spec_fmt = {"rank-order": list(t.getRankIds())}
    for rid in t.getRankIds():
        spec_fmt[rid] = {"format": "C", "cbits": 2, "pbits": 3}
    reads = {
        "getPayload": lambda: [root.getPayload(*pt) for k in range(1, depth + 1) for pt in itertools.product(range(n), repeat=k)],
        "iteration": lambda: ([x for x in root], [x for x in root.iterShape()], [x for x in root.iterActive()], [x for x in root.iterOccupancy()]),
        "coiteration": lambda: ([x for x in root & other.getRoot()], [x for x in root | other.getRoot()], [x for x in root ^ other.getRoot()],
                                [x for x in root - other.getRoot()]),
        "equality": lambda: (t == other, root == other.getRoot()),
        "queries": lambda: (root.isEmpty(), root.countValues(), t.countValues(), t.getShape(), root.getShape(), root.getActive(), root.getRankIds(),
                            root.getDepth(), root.minCoord(), root.maxCoord(), t.getDepth()),
        "printing": lambda: (str(t), repr(t), "{}".format(t), str(root), repr(root), [str(r) for r in t.ranks]),
        "yaml": lambda: t.dump(os.path.join(d, "t.yaml")),
        "uncompress": lambda: root.uncompress() if content(root) else None,
        "footprint": lambda: (Format(t, spec_fmt).getTensor(), Format(t, spec_fmt).getRank(t.getRankIds()[0]), Format(t, spec_fmt).getSubTree()),
    }
    try:
        for name, fn in reads.items():
            ok, _ = attempt(rec, part, dict(case, read=name), fn, "read-only operation runs (%s)" % name)
            now = full_snapshot(t)
            if now != before:
                rec.violation(part, "a read-only operation changed the tree or the rank lists", dict(case, read=name),
                              "read-only operations leave the tree and the rank lists exactly as they were (%s)" % name, None, None)
                before = now
    finally:
        for f in os.listdir(d):
            os.remove(os.path.join(d, f))
        os.rmdir(d)


def check_render(rec, part, depth, n, spec):
    case = dict(depth=depth, n=n, spec=_ser(spec), render=True)
    t = build_tensor(spec, depth, n)
    before = full_snapshot(t)
    for cls in (TreeImage, UncompressedImage, TensorImage):
        ok, ims = attempt(rec, part, dict(case, image=cls.__name__), lambda: (cls(t).im, cls(t).im), "rendering runs")
        if not ok:
            continue
        a, b = ims
        if a.size != b.size or a.tobytes() != b.tobytes():
            rec.violation(part, "two renders of the same tensor differ", dict(case, image=cls.__name__),
                          "rendering the same tensor twice gives identical images", None, None)
        if full_snapshot(t) != before:
            rec.violation(part, "rendering changed the tensor", dict(case, image=cls.__name__),
                          "read-only operations leave the tree and the rank lists exactly as they were (render)", None, None)
            before = full_snapshot(t)


def run(tier, seed):
    rec = Recorder("C10", tier, seed, budget_s=110 if tier == "quick" else 900)
    rnd = random.Random(seed)
    s2 = list(specs(2, 2))
    for spec in s2:
        if rec.out_of_time():
            break
        for opname in TENSOR_OPS:
            rec.case("tensor-ops", (2, spec_key(spec), "plain", opname), sample=dict(spec=_ser(spec), op=opname))
            check_tensor_op(rec, "tensor-ops", 2, 2, spec, "plain", opname)
    for _ in range(250 if tier == "quick" else 4000):
        if rec.out_of_time():
            break
        depth = 3
        spec = random_spec(rnd, depth, 2)
        prep = rnd.choice(list(PREPS))
        opname = rnd.choice(list(TENSOR_OPS))
        rec.case("tensor-ops", (3, spec_key(spec), prep, opname))
        check_tensor_op(rec, "tensor-ops", 3, 2, spec, prep, opname)
    s1 = list(specs1(3, vals=(0, 1)))
    for a, b in itertools.product(s1, s1[::3]):
        for opname in FIBER_OPS:
            rec.case("fiber-ops", (spec_key(a), spec_key(b), opname))
            check_fiber_op(rec, "fiber-ops", 3, a, b, opname, (len(a) + len(b)) % 2 == 0)
    for spec in s2[::2]:
        if rec.out_of_time():
            break
        rec.case("reads", (2, spec_key(spec)))
        check_reads(rec, "reads", 2, 2, spec)
    for _ in range(100 if tier == "quick" else 1500):
        spec = random_spec(rnd, 3, 2)
        rec.case("reads", (3, spec_key(spec)))
        check_reads(rec, "reads", 3, 2, spec)
    for spec in s2[::12 if tier == "quick" else 2]:
        if rec.out_of_time():
            break
        rec.case("render", spec_key(spec))
        check_render(rec, "render", 2, 2, spec)
    # at scale: wider operands (8-20 coordinates per rank) for the same operation families
    for _ in range(25 if tier == "quick" else 300):
        n = rnd.choice([8, 12, 20])
        spec = random_spec(rnd, 2, n, p_present=rnd.choice([0.3, 0.7]))
        opname = rnd.choice(list(TENSOR_OPS))
        rec.case("scale", (2, spec_key(spec), opname))
        check_tensor_op(rec, "scale", 2, n, spec, "plain", opname)
        a, na = scale_spec(rnd, vals=(0, 1), count=rnd.choice([10, 30]))
        b, nb = scale_spec(rnd, vals=(0, 1), count=rnd.choice([10, 30]))
        fop = rnd.choice(list(FIBER_OPS))
        nn = max(na, nb)
        rec.case("scale", (spec_key(a), spec_key(b), fop))
        check_fiber_op(rec, "scale", nn, a, b, fop, rnd.random() < 0.5)
        rec.case("scale", ("reads", spec_key(spec)))
        check_reads(rec, "scale", 2, n, spec)
    return rec.result("every depth-2 tree over 2 coordinates x every value-returning tensor operation (splits, swizzle, swap, flatten(x2), unflatten, merge, "
                      "update*, deepcopy), seeded random depth-3 operands incl. operands prepared by an earlier flatten/split; fiber-level + * / // splits "
                      "copies over all pairs of depth-1 fibers; read-only families (reads, iteration, co-iteration, ==, queries, printing, YAML, "
                      "uncompress, footprints) and image rendering twice; deep snapshots and object-identity sets before/after, then follow-up mutation of each side; "
                      "plus seeded random operands at scale (8-20 coordinates per rank, leaf fibers of 10-30 elements)")


def replay(case):
    rec = Recorder("C10", "replay", 0)
    if case.get("render"):
        check_render(rec, "replay", case["depth"], case["n"], _deser(case["spec"]))
    elif "prep" in case:
        check_tensor_op(rec, "replay", case["depth"], case["n"], _deser(case["spec"]), case["prep"], case["op"])
    elif "a" in case:
        check_fiber_op(rec, "replay", case["n"], _deser(case["a"]), _deser(case["b"]), case["op"], case["owned"])
    else:
        check_reads(rec, "replay", case["depth"], case["n"], _deser(case["spec"]))
    if rec.violations:
        v = rec.violations[0]
        return False, "REPRODUCED: %s: %s (observed %s, expected %s)" % (v["what"], v["clause"], v["observed"], v["expected"])
    return True, "not reproduced"


if __name__ == "__main__":
    raise SystemExit(main(__import__("C10")))
