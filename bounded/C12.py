"""Bounded stand-in for C12: equality, emptiness, counting and pruning depend on content only."""
import copy
import itertools
import random

from common import Recorder, guarded, main
from gen import specs1, specs, build_fiber, build_tensor, spec_key, random_spec
from spec.oracle import raw, is_fiber, unbox, spec_content, content, tensor_snapshot

from fibertree import Fiber, Tensor, Payload


def _ser(spec):
    return {str(k): (_ser(v) if isinstance(v, dict) else v) for k, v in spec.items()}


def _deser(spec):
    return {int(k): (_deser(v) if isinstance(v, dict) else v) for k, v in spec.items()}


def has_explicit(f, default=0):
    """Does the tree store an explicit default or an empty sub-fiber?"""
    for p in f.payloads:
        if is_fiber(p):
            if not p.payloads or has_explicit(p, default) or not content(p, default):
                return True
        elif unbox(p) == default:
            return True
    return False


def check_single(rec, part, depth, n, spec, owned):
    case = dict(depth=depth, n=n, spec=_ser(spec), owned=owned)
    want = spec_content(spec)
    if owned:
        t = build_tensor(spec, depth, n)
        f = t.getRoot()
    else:
        t, f = None, build_fiber(spec, depth, shape=n)
    before = (tensor_snapshot(t) if t else None, raw(f))
    ok, e = guarded(rec, part, case, lambda: f.isEmpty())
    if ok and e != (len(want) == 0):
        rec.violation(part, "isEmpty wrong", case, "a tree is empty exactly when it has no non-default leaf", e, len(want) == 0)
    ok, c = guarded(rec, part, case, lambda: f.countValues())
    if ok and c != len(want):
        rec.violation(part, "countValues wrong", case, "the value count is the number of non-default leaves", c, len(want))
    ok, ne = guarded(rec, part, case, lambda: f.nonEmpty())
    if ok:
        if content(ne) != want:
            rec.violation(part, "nonEmpty changed the content", case, "the pruned copy has the same content", content(ne), want)
        elif has_explicit(ne):
            rec.violation(part, "nonEmpty kept an explicit default or an empty sub-fiber", case,
                          "the pruned copy has no explicit defaults and no empty sub-fibers", raw(ne), None)
        else:
            ok2, eq = guarded(rec, part, case, lambda: (ne == f, f == ne))
            if ok2 and eq != (True, True):
                rec.violation(part, "pruned copy not equal to the original", case, "the pruned copy is an equal tree", eq, (True, True))
    ok, eq = guarded(rec, part, case, lambda: f == f)
    if ok and eq is not True:
        rec.violation(part, "equality not reflexive", case, "equality is reflexive", eq, True)
    ok, cp = guarded(rec, part, case, lambda: copy.deepcopy(t if t else f))
    if ok:
        ok2, eq = guarded(rec, part, case, lambda: (cp == (t if t else f), (t if t else f) == cp))
        if ok2 and eq != (True, True):
            rec.violation(part, "deep copy differs from its original", case, "a deep copy equals its original", eq, (True, True))
    if (tensor_snapshot(t) if t else None, raw(f)) != before:
        rec.violation(part, "a query changed the tree", case, "equality/emptiness/counting queries leave the tree as it was", None, None)


def check_pair(rec, part, depth, n, a, b, owned):
    case = dict(depth=depth, n=n, a=_ser(a), b=_ser(b), owned=owned)
    want = spec_content(a) == spec_content(b)
    if owned:
        ta, tb = build_tensor(a, depth, n, name="A"), build_tensor(b, depth, n + 1, name="B")   # shapes differ on purpose
        fa, fb = ta.getRoot(), tb.getRoot()
    else:
        ta = tb = None
        fa, fb = build_fiber(a, depth, shape=n), build_fiber(b, depth)
    before = (tensor_snapshot(ta) if ta else None, raw(fa), tensor_snapshot(tb) if tb else None, raw(fb))
    ok, r = guarded(rec, part, case, lambda: (fa == fb, fb == fa))
    if ok:
        if r[0] != r[1]:
            rec.violation(part, "equality not symmetric", case, "equality is symmetric", r, None)
        elif r[0] != want:
            rec.violation(part, "equality wrong", case, "equal exactly when the same non-default leaf values sit at the same points", r[0], want)
    if ta is not None:
        ok, r = guarded(rec, part, case, lambda: (ta == tb, tb == ta))
        if ok and (r[0] != want or r[1] != want):
            rec.violation(part, "tensor equality wrong", case, "tensors with the same rank ids are equal exactly when their content is", r, want)
    if (tensor_snapshot(ta) if ta else None, raw(fa), tensor_snapshot(tb) if tb else None, raw(fb)) != before:
        rec.violation(part, "equality changed an operand", case, "equality leaves the operands (and their rank lists) as they were", None, None)


def check_triple(rec, part, depth, n, a, b, c):
    case = dict(depth=depth, n=n, a=_ser(a), b=_ser(b), c=_ser(c))
    fa, fb, fc = (build_fiber(s, depth) for s in (a, b, c))
    ok, r = guarded(rec, part, case, lambda: (fa == fb, fb == fc, fa == fc))
    if ok and r[0] and r[1] and not r[2]:
        rec.violation(part, "equality not transitive", case, "equality is transitive", r, None)


def single_leaf_variants(spec, depth, n):
    """Trees differing from spec in exactly one deep leaf."""
    pts = list(itertools.product(range(n), repeat=depth))
    for pt in pts:
        for v in (0, 1, 2):
            s = copy.deepcopy(spec)
            cur = s
            for c in pt[:-1]:
                cur = cur.setdefault(c, {})
            if cur.get(pt[-1]) == v:
                continue
            cur[pt[-1]] = v
            yield s


def run(tier, seed):
    rec = Recorder("C12", tier, seed, budget_s=100 if tier == "quick" else 900)
    rnd = random.Random(seed)
    s1 = list(specs1(3))
    for s in s1:
        for owned in (False, True):
            rec.case("single", (1, spec_key(s), owned), sample=dict(spec=_ser(s)))
            check_single(rec, "single", 1, 3, s, owned)
    s2 = list(specs(2, 2))
    for s in s2:
        for owned in (False, True):
            rec.case("single", (2, spec_key(s), owned))
            check_single(rec, "single", 2, 2, s, owned)
    for a, b in itertools.product(s1, s1):
        rec.case("pairs", (1, spec_key(a), spec_key(b)))
        check_pair(rec, "pairs", 1, 3, a, b, True)
    p2 = list(itertools.product(s2, s2))
    rnd.shuffle(p2)
    for a, b in p2[:6000 if tier == "quick" else len(p2)]:
        if rec.out_of_time():
            break
        rec.case("pairs", (2, spec_key(a), spec_key(b)))
        check_pair(rec, "pairs", 2, 2, a, b, rnd.random() < 0.5)
    for _ in range(1500 if tier == "quick" else 20000):
        if rec.out_of_time():
            break
        depth = rnd.choice([2, 3])
        s = random_spec(rnd, depth, 2)
        rec.case("single", (depth, spec_key(s), "rnd"))
        check_single(rec, "single", depth, 2, s, True)
        for v in list(single_leaf_variants(s, depth, 2))[:6]:
            rec.case("single-leaf-difference", (depth, spec_key(s), spec_key(v)))
            check_pair(rec, "single-leaf-difference", depth, 2, s, v, rnd.random() < 0.5)
    tr = list(itertools.product(s1[:30], repeat=3))
    rnd.shuffle(tr)
    for a, b, c in tr[:1500 if tier == "quick" else 20000]:
        rec.case("triples", (spec_key(a), spec_key(b), spec_key(c)))
        check_triple(rec, "triples", 1, 3, a, b, c)
    # at scale: long leaf fibers, and depth-2 trees with many rows (coordinates 0..n-1 at both levels)
    for _ in range(40 if tier == "quick" else 500):
        cnt = rnd.choice([12, 20, 40])
        a = {c: rnd.choice([0, 1, 2]) for c in rnd.sample(range(cnt + 8), cnt)}
        b = dict(a)
        if rnd.random() < 0.7:       # differ in one place (or only in an explicit default)
            c = rnd.choice(sorted(b))
            b[c] = rnd.choice([0, 1, 2])
            if rnd.random() < 0.3:
                del b[c]
        rec.case("scale", (1, spec_key(a), spec_key(b)))
        check_single(rec, "scale", 1, cnt + 8, a, rnd.random() < 0.5)
        check_pair(rec, "scale", 1, cnt + 8, a, b, rnd.random() < 0.5)
        rows = rnd.choice([16, 20, 30])
        t = {r: {c: rnd.choice([0, 1, 2]) for c in range(rows) if rnd.random() < 0.2} for r in range(rows) if rnd.random() < 0.9}
        rec.case("scale", (2, spec_key(t)))
        check_single(rec, "scale", 2, rows, t, True)
    return rec.result("every tree of depth 1 (3 coordinates) and 2 (2 coordinates) with explicit defaults and empty sub-fibers: isEmpty/countValues/"
                      "nonEmpty/deepcopy/reflexivity against independently extracted content; all depth-1 pairs, sampled depth-2 pairs, pairs differing "
                      "in a single deep leaf at depth 2-3, in both directions, free-standing and as tensors with different shapes; triples for transitivity; "
                      "plus seeded random long leaf fibers (12-40 elements) and depth-2 trees with 16-30 rows")


def replay(case):
    rec = Recorder("C12", "replay", 0)
    if "c" in case:
        check_triple(rec, "replay", case["depth"], case["n"], _deser(case["a"]), _deser(case["b"]), _deser(case["c"]))
    elif "b" in case:
        check_pair(rec, "replay", case["depth"], case["n"], _deser(case["a"]), _deser(case["b"]), case["owned"])
    else:
        check_single(rec, "replay", case["depth"], case["n"], _deser(case["spec"]), case["owned"])
    if rec.violations:
        v = rec.violations[0]
        return False, "REPRODUCED: %s: %s (observed %s, expected %s)" % (v["what"], v["clause"], v["observed"], v["expected"])
    return True, "not reproduced"


if __name__ == "__main__":
    raise SystemExit(main(__import__("C12")))
