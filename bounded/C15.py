"""Bounded stand-in for C15: metrics collection is transparent, exact and session-isolated (kernels of the C06 family)."""
import itertools
import os
import random
import tempfile

from common import Recorder, guarded, main
import kernels as K

from spec.oracle import raw
from fibertree import Metrics, Payload
from fibertree.model import Compute

TRACE_TYPES = ["iter", "intersect_0", "intersect_1", "populate_0", "populate_1", "populate_read_0", "populate_write_0"]


def _ser(contents):
    return [{",".join(map(str, k)): v for k, v in c.items()} for c in contents]


def _des(ser):
    return [{tuple(int(x) for x in k.split(",") if x != ""): v for k, v in c.items()} for c in ser]


def session(expr, contents, sizes, order, tiles, registered, d, tag, preset=None):
    """Run one collection session; returns (output content, raw output snapshot, dump, {file: text}, counters)."""
    prefix = os.path.join(d, tag)

    def collect(ev):
        if ev == "begin":
            Metrics.beginCollect(prefix)
            for rank, typ in registered:
                Metrics.trace(rank, typ)
        else:
            Metrics.endCollect()
    cnt = {}
    got, zt = K.run_kernel(expr, contents, sizes, order, tiles, "two-finger", collect=collect, counters=cnt, preset_output=preset)
    got = (got, raw(zt.getRoot()))           # content and raw structure (which elements / sub-fibers are stored)
    dump = Metrics.dump()
    files = {}
    for f in sorted(os.listdir(d)):
        if f.startswith(tag + "-"):
            files[f[len(tag) + 1:]] = open(os.path.join(d, f)).read()
            os.remove(os.path.join(d, f))
    return got, cnt, dump, files


def noise_session(rnd, d):
    """Some earlier, unrelated session (leaves whatever it leaves in the Metrics class state)."""
    expr = K.EXPRESSIONS["matvec"]
    contents = [{(0, 0): 1, (1, 1): 2, (1, 2): 3}, {(0,): 1, (2,): 2}]
    regs = [("M", "iter"), ("K", "intersect_0"), ("K", "iter")][:rnd.randint(0, 3)]
    session(expr, contents, dict(m=2, k=3), ["m", "k"], {}, regs, d, "noise")
    if rnd.random() < 0.5:
        Metrics.beginCollect(os.path.join(d, "noise2"))
        _ = Payload(2) * Payload(3)
        Metrics.endCollect()


def check(rec, part, name, contents, sizes, order, tiles, registered, rnd_seed, preset=None):
    expr = K.EXPRESSIONS[name]
    case = dict(expr=name, contents=_ser(contents), sizes=sizes, order=order, tiles=tiles, registered=[list(r) for r in registered], seed=rnd_seed,
                preset=_ser([preset])[0] if preset else None)
    rnd = random.Random(rnd_seed)
    d = tempfile.mkdtemp(prefix="c15-")
    try:
        ok, off = guarded(rec, part, case, lambda: K.run_kernel(expr, contents, sizes, order, tiles, "two-finger", counters={}, preset_output=preset),
                          "the kernel runs with collection off")
        if not ok:
            return
        off = ((off[0], raw(off[1].getRoot())), off[1])
        ok, s1 = guarded(rec, part, case, lambda: session(expr, contents, sizes, order, tiles, registered, d, "s1", preset), "the kernel runs with collection on")
        if not ok:
            return
        got, cnt, dump, files = s1
        if got != off[0]:
            rec.violation(part, "collection changed the result", case, "running with collection on produces the same tensor results as with it off", got, off[0])
            return
        comp = dump.get("Compute", {}) if dump else {}
        for metric, key in (("payload_mul", "mul"), ("payload_add", "add"), ("payload_update", "update")):
            if comp.get(metric, 0) != cnt[key]:
                rec.violation(part, "%s count wrong" % metric, case,
                              "the reported multiply/add/update counts equal the payload operations the kernel executed", comp.get(metric, 0), cnt[key])
        for rank, typ in registered:
            if typ != "iter":
                continue
            v = next((x for x in order if K.rank_name(x) == rank), None)
            fn = "%s-iter.csv" % rank
            if v is None or fn not in files:
                continue
            rows = max(len(files[fn].splitlines()) - 1, 0)
            if rows != cnt["iters"].get(v, 0):
                rec.violation(part, "iteration count of a traced rank wrong", dict(case, rank=rank),
                              "the iteration count of a traced rank equals the number of loop bodies executed at that rank", rows, cnt["iters"].get(v, 0))
        # session isolation: whatever ran before, the same kernel reports identical counts and traces
        ok, _ = guarded(rec, part, case, lambda: noise_session(rnd, d), "an earlier session runs")
        ok, s2 = guarded(rec, part, case, lambda: session(expr, contents, sizes, order, tiles, registered, d, "s1", preset), "the kernel runs again")
        if ok:
            got2, cnt2, dump2, files2 = s2
            if got2 != got or dump2 != dump or files2 != files:
                what = "result" if got2 != got else "counts" if dump2 != dump else "trace files"
                rec.violation(part, "second session differs (%s)" % what, case,
                              "a new collection session starts from a clean state: identical counts and traces whatever ran before",
                              (got2, dump2) if what != "trace files" else {k: v for k, v in files2.items() if files.get(k) != v},
                              (got, dump) if what != "trace files" else {k: v for k, v in files.items() if files2.get(k) != v})
    finally:
        for f in os.listdir(d):
            os.remove(os.path.join(d, f))
        os.rmdir(d)


def rank_choices(order, rnd):
    ranks = [K.rank_name(v) for v in order]
    regs = []
    for r in ranks:
        for typ in TRACE_TYPES:
            if rnd.random() < 0.35:
                regs.append((r, typ))
    return regs


def run(tier, seed):
    rec = Recorder("C15", tier, seed, budget_s=110 if tier == "quick" else 900)
    rnd = random.Random(seed)
    shapes = {"matmul": dict(m=2, k=3, n=2), "matvec": dict(m=3, k=4), "dot": dict(k=5), "elementwise": dict(m=5), "reduce2": dict(m=3, k=3),
              "three": dict(m=2, k=3), "outer": dict(m=2, n=3), "copy": dict(m=4)}
    names = list(shapes)
    names = names + ["matmul", "outer", "matmul"]      # two-level outputs exercise populate over a non-leaf rank
    for i in range(600 if tier == "quick" else 9000):
        if rec.out_of_time():
            break
        name = names[i % len(names)]
        sizes = shapes[name]
        expr = K.EXPRESSIONS[name]
        contents = []
        for idx in expr[1]:
            pts = list(itertools.product(*[range(sizes[v]) for v in idx]))
            contents.append({p: rnd.choice([1, 2, 3, -1]) for p in pts if rnd.random() < rnd.choice([0.4, 0.8])})
        tiles = {}
        if rnd.random() < 0.3:
            v = rnd.choice(sorted(set("".join(expr[1]))))
            tiles[v] = rnd.randint(1, sizes[v])
        order = rnd.choice(list(K.loop_orders(expr, tiles)))
        regs = rank_choices(order, rnd)
        # sometimes the output already holds structure (explicit empty rows, existing values): populate revisits it
        preset = None
        if expr[0] and rnd.random() < 0.4:
            opts = list(itertools.product(*[range(sizes[v]) for v in expr[0]]))
            preset = {p: rnd.choice([0, 0, 5]) for p in opts if rnd.random() < 0.5}
            if len(expr[0]) > 1:
                # reserved rows: explicitly empty sub-fibers of the output
                for c in range(sizes[expr[0][0]]):
                    if rnd.random() < 0.4:
                        preset = {p: v for p, v in preset.items() if p[0] != c}
                        preset[(c,)] = None
        rec.case("kernels", (name, repr(contents), tuple(order), repr(tiles), repr(regs), repr(preset)),
                 sample=dict(expr=name, order=order, registered=regs))
        check(rec, "kernels", name, contents, sizes, order, tiles, regs, rnd.randrange(10 ** 6), preset)
    # at scale: larger shapes (ranks of 10-30 coordinates)
    big = {"matmul": dict(m=6, k=12, n=6), "matvec": dict(m=10, k=20), "dot": dict(k=30), "elementwise": dict(m=30), "reduce2": dict(m=8, k=14),
           "outer": dict(m=10, n=9), "copy": dict(m=25)}
    bnames = list(big)
    for i in range(20 if tier == "quick" else 250):
        if rec.out_of_time():
            break
        name = bnames[i % len(bnames)]
        sizes = big[name]
        expr = K.EXPRESSIONS[name]
        contents = []
        for idx in expr[1]:
            pts = list(itertools.product(*[range(sizes[v]) for v in idx]))
            contents.append({p: rnd.choice([1, 2, 3, -1]) for p in pts if rnd.random() < rnd.choice([0.2, 0.7])})
        tiles = {}
        if rnd.random() < 0.4:
            v = rnd.choice(sorted(set("".join(expr[1]))))
            tiles[v] = rnd.randint(1, sizes[v])
        order = rnd.choice(list(K.loop_orders(expr, tiles)))
        regs = rank_choices(order, rnd)
        rec.case("scale", (name, repr(contents), tuple(order), repr(tiles), repr(regs)))
        check(rec, "scale", name, contents, sizes, order, tiles, regs, rnd.randrange(10 ** 6), None)
    # populate over a non-leaf rank of an output that already holds reserved (empty) rows, with the populate traces registered
    rows = [None, {0: 1}, {1: 2}]
    combos = list(itertools.product(rows, repeat=6))
    rnd.shuffle(combos)
    for combo in combos[:250 if tier == "quick" else len(combos)]:
        if rec.out_of_time():
            break
        a = {(m, k): v for m, r in enumerate(combo[:3]) if r for k, v in r.items()}
        b = {(m, k): v for m, r in enumerate(combo[3:]) if r for k, v in r.items()}
        for reserved in itertools.chain.from_iterable(itertools.combinations(range(3), n) for n in range(1, 3)):
            preset = {(c,): None for c in reserved}
            for regs in ([("M", "populate_read_0")], [("M", "populate_read_0"), ("M", "populate_write_0"), ("M", "populate_1"), ("K", "iter")]):
                rec.case("populate-structure", (repr(combo), reserved, len(regs)))
                check(rec, "populate-structure", "elementwise2", [a, b], dict(m=3, k=2), ["m", "k"], {}, regs, 1, preset)
    # dense traversals: zero addends onto non-zero accumulators (adds count operations, not value changes)
    for vals in itertools.product([0, 1, 2], repeat=4):
        rec.case("dense-dot", vals)
        check_dense(rec, "dense-dot", list(vals))
    return rec.result("seeded random kernels of the C06 family (random sparse operands, random legal loop order, optional tiling, output sometimes "
                      "pre-populated with explicit zeros / values) with a random subset of (rank, trace type) registrations: outputs with collection on == "
                      "off; Compute counts == operations counted by the harness; iter-trace rows == loop bodies per rank; a second identical session after "
                      "an unrelated one gives identical dump and trace files; dense dot products over all value assignments; plus seeded random kernels at scale "
                      "(ranks of 6-30 coordinates)")


def check_dense(rec, part, vals):
    """z += a * b over the whole shape (iterShape), so zero products are really added."""
    from fibertree import Fiber
    case = dict(dense=vals)
    a = Fiber.fromUncompressed(vals) if any(vals) else Fiber([], [], shape=len(vals))
    Metrics.beginCollect()
    try:
        z = Payload(0)
        adds = updates = muls = 0
        for c, p in a.iterShape():
            before = z.value
            z += p * 1
            muls += 1
            updates += 1
            if before != 0:
                adds += 1
        dump = Metrics.dump()
    finally:
        Metrics.endCollect()
    comp = dump.get("Compute", {})
    got = (comp.get("payload_mul", 0), comp.get("payload_add", 0), comp.get("payload_update", 0))
    if got != (muls, adds, updates):
        rec.violation(part, "operation counts depend on operand values", case,
                      "the reported multiply/add/update counts equal the payload operations the kernel executed", got, (muls, adds, updates))


def replay(case):
    rec = Recorder("C15", "replay", 0)
    if "dense" in case:
        check_dense(rec, "replay", case["dense"])
    else:
        check(rec, "replay", case["expr"], _des(case["contents"]), case["sizes"], case["order"], case["tiles"],
              [tuple(r) for r in case["registered"]], case["seed"], _des([case["preset"]])[0] if case.get("preset") else None)
    if rec.violations:
        v = rec.violations[0]
        return False, "REPRODUCED: %s: %s (observed %s, expected %s)" % (v["what"], v["clause"], v["observed"], v["expected"])
    return True, "not reproduced"


if __name__ == "__main__":
    raise SystemExit(main(__import__("C15")))
