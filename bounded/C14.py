"""Bounded stand-in for C14: rank ids, shapes, defaults, formats, mutability and active ranges follow the data."""
import copy
import itertools
import random

from common import Recorder, guarded, main
from gen import specs1, specs, build_fiber, build_tensor, spec_key, random_spec
from spec.oracle import raw, is_fiber, is_box, unbox, content

from fibertree import Fiber, Tensor, Payload


def _ser(spec):
    return {str(k): (_ser(v) if isinstance(v, dict) else v) for k, v in spec.items()}


def _deser(spec):
    return {int(k): (_deser(v) if isinstance(v, dict) else v) for k, v in spec.items()}


def mk(spec, depth, n, default, fmts, mutable, authoritative):
    t = build_tensor(spec, depth, n, default=default, shape=[n] * depth if authoritative else None)
    for rid, f in zip(t.getRankIds(), fmts):
        t.setFormat(rid, f)
    t.setMutable(mutable)
    return t


def attempt(rec, part, case, fn, clause=None):
    """C14 is about what a transform's result reports; whether the transform accepts the operand at all belongs to C08/C09."""
    try:
        return True, fn()
    except Exception:
        rec.parts["skipped-raises"] = rec.parts.get("skipped-raises", 0) + 1
        return False, None


def coords_inside(rec, part, case, t, what):
    """Every stored coordinate lies inside the reported shape and inside its fiber's active range."""
    shape = t.getShape()
    root = t.getRoot()
    if not is_fiber(root):
        return

    def inside(c, s):
        if isinstance(c, tuple) and isinstance(s, tuple):
            return all(inside(a, b) for a, b in zip(c, s))
        if isinstance(c, tuple) or isinstance(s, tuple):
            return True
        return 0 <= c < s

    def walk(f, d):
        act = f.getActive()
        for c, p in zip(f.coords, f.payloads):
            if shape and d < len(shape) and shape[d] is not None and not inside(c, shape[d]):
                rec.violation(part, "stored coordinate outside the reported shape", dict(case, coord=repr(c), level=d),
                              "every stored coordinate lies inside the reported shape (%s)" % what, c, shape[d])
                return False
            if act is not None and not isinstance(c, tuple) and not (act[0] <= c < act[1]):
                rec.violation(part, "stored coordinate outside its fiber's active range", dict(case, coord=repr(c), level=d),
                              "every stored coordinate lies inside its fiber's active range (%s)" % what, c, act)
                return False
            if is_fiber(p) and not walk(p, d + 1):
                return False
        occ = [c for c, _ in f.iterOccupancy()]
        try:
            actv = [c for c, _ in f.iterActive()]
        except Exception as e:
            rec.violation(part, "active-range iteration raises", dict(case, level=d),
                          "active-range iteration of a freshly built or transformed fiber equals its occupancy iteration (%s)" % what,
                          "%s: %s (active range %r, coords %r)" % (type(e).__name__, e, f.getActive(), f.coords), occ)
            return False
        if occ != actv:
            rec.violation(part, "active-range iteration differs from occupancy iteration", dict(case, level=d),
                          "active-range iteration of a freshly built or transformed fiber equals its occupancy iteration (%s)" % what, actv, occ)
            return False
        return True
    walk(root, 0)


def expect(rec, part, case, what, got, want, clause):
    if got != want:
        rec.violation(part, "%s not carried over" % what, case, clause, got, want)
        return False
    return True


def check_transforms(rec, part, depth, n, spec, default, fmts, mutable, authoritative):
    base = dict(depth=depth, n=n, spec=_ser(spec), default=default, fmts=list(fmts), mutable=mutable, authoritative=authoritative)
    t = mk(spec, depth, n, default, fmts, mutable, authoritative)
    ids = t.getRankIds()
    shape = t.getShape(authoritative=True)
    fmt = dict(zip(ids, fmts))

    def common(r, case, origin, what, exp_ids, exp_shape):
        ok = expect(rec, part, case, "rank ids", r.getRankIds(), exp_ids, "rank ids renamed as documented (%s)" % what)
        if authoritative and exp_shape is not None:
            ok = expect(rec, part, case, "shape", r.getShape(authoritative=True), exp_shape,
                        "shape re-arranged like the rank ids when the operand's shape was authoritative (%s)" % what) and ok
        ok = expect(rec, part, case, "leaf default", unbox(r.getDefault()), default, "the operand's leaf default is carried over (%s)" % what) and ok
        ok = expect(rec, part, case, "mutability", r.isMutable(), mutable, "the operand's mutability hint is carried over (%s)" % what) and ok
        for rid in r.getRankIds():
            o = origin(rid)
            if o is not None:
                ok = expect(rec, part, dict(case, rank=repr(rid)), "format", r.getFormat(rid), fmt[o],
                            "per-rank formats are carried over (%s)" % what) and ok
        if ok:
            coords_inside(rec, part, case, r, what)

    # split of every rank, every split family
    def partition_ranges(r, case, d, what):
        """The partitions of one split fiber: ascending upper coordinates, pairwise disjoint ascending active ranges."""
        def fibers_at(f, lvl):
            if lvl == 0:
                yield f
                return
            for p in f.payloads:
                if is_fiber(p):
                    yield from fibers_at(p, lvl - 1)
        for up in fibers_at(r.getRoot(), d):
            cs = list(up.coords)
            if cs != sorted(set(cs)):
                rec.violation(part, "partition coordinates not ascending", case, "partition coordinates ascend (%s)" % what, cs, sorted(set(cs)))
                return
            acts = [p.getActive() for p in up.payloads if is_fiber(p)]
            for a, b in zip(acts, acts[1:]):
                if a is not None and b is not None and not isinstance(a[0], tuple) and not (a[1] <= b[0]):
                    rec.violation(part, "partition active ranges overlap", case,
                                  "the active ranges of consecutive partitions are disjoint and ascending (%s)" % what, acts, None)
                    return

    m = max(2, n // 3)
    kinds = [("splitUniform", lambda d: t.splitUniform(2, depth=d)), ("splitUniform", lambda d: t.splitUniform(m, depth=d)),
             ("splitEqual", lambda d: t.splitEqual(2, depth=d)), ("splitUnEqual", lambda d: t.splitUnEqual([m, 2, m], depth=d)),
             ("splitNonUniform", lambda d: t.splitNonUniform([0, m, n - 1], depth=d))]
    for d in range(depth):
        for kname, fn in kinds:
            case = dict(base, op=kname, d=d)
            ok, r = attempt(rec, part, case, lambda: fn(d), "split runs")
            if ok:
                X = ids[d]
                exp_ids = ids[:d] + [X + ".1", X + ".0"] + ids[d + 1:]
                exp_shape = (shape[:d] + [shape[d], shape[d]] + shape[d + 1:]) if shape else None
                common(r, case, lambda rid: X if rid in (X + ".1", X + ".0") else rid, "split", exp_ids, exp_shape)
                partition_ranges(r, case, d, kname)
    if depth >= 2:
        for d in range(depth - 1):
            case = dict(base, op="swap", d=d)
            ok, r = attempt(rec, part, case, lambda: t.swapRanks(depth=d), "swap runs")
            if ok:
                exp_ids = ids[:d] + [ids[d + 1], ids[d]] + ids[d + 2:]
                exp_shape = (shape[:d] + [shape[d + 1], shape[d]] + shape[d + 2:]) if shape else None
                common(r, case, lambda rid: rid, "swap", exp_ids, exp_shape)
            for levels in range(1, depth - d):
                case = dict(base, op="flatten", d=d, levels=levels)
                ok, r = attempt(rec, part, case, lambda: t.flattenRanks(depth=d, levels=levels), "flatten runs")
                if ok:
                    merged = ids[d:d + levels + 1]
                    exp_ids = ids[:d] + [merged] + ids[d + levels + 1:]
                    exp_shape = (shape[:d] + [tuple(shape[d:d + levels + 1])] + shape[d + levels + 1:]) if shape else None
                    common(r, case, lambda rid: rid if not isinstance(rid, list) else None,
                           "flatten" if levels == 1 else "flatten of more than two ranks", exp_ids, exp_shape)
                    case2 = dict(base, op="unflatten", d=d, levels=levels)
                    ok2, u = attempt(rec, part, case2, lambda: r.unflattenRanks(depth=d, levels=levels), "unflatten runs")
                    if ok2:
                        common(u, case2, lambda rid: rid if not (rid in merged) else None, "unflatten", ids, shape)
        for perm in itertools.permutations(range(depth)):
            case = dict(base, op="swizzle", perm=list(perm))
            new_ids = [ids[i] for i in perm]
            ok, r = attempt(rec, part, case, lambda: t.swizzleRanks(new_ids), "swizzle runs")
            if ok:
                exp_shape = [shape[i] for i in perm] if shape else None
                common(r, case, lambda rid: rid, "swizzle", new_ids, exp_shape)
    # constructors
    case = dict(base, op="constructor")
    coords_inside(rec, part, case, t, "fromFiber")
    expect(rec, part, case, "leaf default", unbox(t.getDefault()), default, "the constructor reports the given default")


def check_lazy(rec, part, n, aspec, bspec, act_a, act_b):
    case = dict(n=n, a=_ser(aspec), b=_ser(bspec), act_a=act_a, act_b=act_b, lazy=True)
    ta, tb = build_tensor(aspec, 1, n, rank_ids=["A"]), build_tensor(bspec, 1, n, rank_ids=["B"])
    a, b = ta.getRoot(), tb.getRoot()
    if act_a:
        a.setActive(tuple(act_a))
    if act_b:
        b.setActive(tuple(act_b))
    A, B = tuple(a.getActive()), tuple(b.getActive())
    for name, fn, rid, act in (
            ("and", lambda: a & b, "A", A), ("or", lambda: a | b, "A", A), ("xor", lambda: a ^ b, "A", A), ("sub", lambda: a - b, "A", A),
            ("prune", lambda: a.prune(lambda i, c, p: True), "A", A),
            ("populate", lambda: a << b, "A", B),
            ("intersection", lambda: Fiber.intersection(a, b), "A", A), ("union", lambda: Fiber.union(a, b), "A", A),
            ("project+", lambda: a.project(lambda c: c + 3), "A", (A[0] + 3, A[1] + 3)),
            ("project-", lambda: a.project(lambda c: 10 - c), "A", (10 - (A[1] - 1), 10 - A[0] + 1)),
            ("project-interval", lambda: a.project(lambda c: c + 3, interval=(4, 6)), "A", (4, 6))):
        c2 = dict(case, op=name)
        ta2, tb2 = build_tensor(aspec, 1, n, rank_ids=["A"]), build_tensor(bspec, 1, n, rank_ids=["B"])
        a, b = ta2.getRoot(), tb2.getRoot()
        if act_a:
            a.setActive(tuple(act_a))
        if act_b:
            b.setActive(tuple(act_b))
        ok, r = guarded(rec, part, c2, fn, "lazy operation runs")
        if not ok:
            continue
        got_id = r.getRankAttrs().getId()
        if got_id != rid and not name.startswith("project"):     # a projection names its result through rank_id=
            rec.violation(part, "lazy result carries the wrong rank id", c2, "a lazily produced fiber carries the rank id of its first operand (the destination for populate)", got_id, rid)
        got_act = tuple(r.getActive())
        if got_act != tuple(act):
            rec.violation(part, "lazy result carries the wrong active range", c2,
                          "a lazily produced fiber carries the active range the operation defines (%s)" % name, got_act, tuple(act))


def check_join(rec, part, n, spec, default_f, default_t):
    """An unowned fiber's attributes are replaced by its rank's once it joins a tensor."""
    case = dict(n=n, spec=_ser(spec), default_f=default_f, default_t=default_t, join=True)
    f = Fiber(sorted(spec), [spec[c] for c in sorted(spec)], default=default_f, shape=n + 3)
    f.getRankAttrs().setId("OLD")
    t = Tensor.fromFiber(["NEW"], f, shape=[n], default=default_t)
    root = t.getRoot()
    for what, got, want in (("rank id", root.getRankAttrs().getId(), "NEW"), ("default", unbox(root.getDefault()), default_t),
                            ("shape", root.getShape(all_ranks=False), n)):
        if got != want:
            rec.violation(part, "an owned fiber still reports its own %s" % what, case,
                          "an unowned fiber's attributes are replaced by its rank's once it joins a tensor (%s)" % what, got, want)


def run(tier, seed):
    rec = Recorder("C14", tier, seed, budget_s=100 if tier == "quick" else 900)
    rnd = random.Random(seed)
    s2 = list(specs(2, 2))
    for spec in s2[::2 if tier == "quick" else 1]:
        for default in (0, 1):
            for fmts in (("C", "C"), ("U", "C"), ("C", "U")):
                for mutable, auth in ((True, True), (False, True), (True, False)):
                    rec.case("transforms", (spec_key(spec), default, fmts, mutable, auth), sample=dict(spec=_ser(spec), default=default, fmts=list(fmts)))
                    check_transforms(rec, "transforms", 2, 2, spec, default, fmts, mutable, auth)
    for _ in range(200 if tier == "quick" else 4000):
        if rec.out_of_time():
            break
        depth = rnd.choice([3, 3, 4])
        n = 2 if depth == 4 else 3
        spec = random_spec(rnd, depth, n, p_present=0.7)
        fmts = tuple(rnd.choice("CU") for _ in range(depth))
        args = (rnd.choice([0, 1]), fmts, rnd.random() < 0.5, rnd.random() < 0.7)
        rec.case("transforms", (spec_key(spec),) + args)
        # different sizes per rank make a wrong shape permutation visible
        check_transforms(rec, "transforms", depth, n, spec, *args)
    for _ in range(150 if tier == "quick" else 3000):
        # authoritative shapes that differ per rank
        depth = 3
        dims = [2, 3, 4]
        rnd.shuffle(dims)
        spec = {}
        for _k in range(rnd.randint(1, 5)):
            pt = [rnd.randrange(d) for d in dims]
            cur = spec
            for c in pt[:-1]:
                cur = cur.setdefault(c, {})
            if not isinstance(cur, dict):
                continue
            cur[pt[-1]] = rnd.choice([1, 2])
        t = build_tensor(spec, 3, None, shape=dims)
        case = dict(spec=_ser(spec), dims=dims, op="swizzle-shape")
        for perm in itertools.permutations(range(3)):
            ids = t.getRankIds()
            rec.case("shape-permutation", (spec_key(spec), tuple(dims), perm))
            ok, r = guarded(rec, "shape-permutation", dict(case, perm=list(perm)), lambda: t.swizzleRanks([ids[i] for i in perm]), "swizzle runs")
            if ok:
                expect(rec, "shape-permutation", dict(case, perm=list(perm)), "shape", r.getShape(authoritative=True), [dims[i] for i in perm],
                       "shape re-arranged like the rank ids when the operand's shape was authoritative (swizzle)")
                coords_inside(rec, "shape-permutation", dict(case, perm=list(perm)), r, "swizzle")
    s1 = list(specs1(4, vals=(0, 1)))
    acts = [None, (1, 3), (2, 4)]
    for a, b in itertools.product(s1[::3], s1[::5]):
        for aa, ab in itertools.product(acts, acts):
            rec.case("lazy", (spec_key(a), spec_key(b), aa, ab))
            check_lazy(rec, "lazy", 4, a, b, aa, ab)
    for spec in list(specs1(3, vals=(1, 2)))[:12]:
        for df, dt in ((0, 0), (0, 5), (7, 0), (7, 5)):
            rec.case("join", (spec_key(spec), df, dt))
            check_join(rec, "join", 3, spec, df, dt)
    # at scale: wider tensors (8-16 coordinates per rank)
    for _ in range(25 if tier == "quick" else 300):
        if rec.out_of_time():
            break
        depth = rnd.choice([2, 2, 3])
        n = rnd.choice([8, 16]) if depth == 2 else 6
        spec = random_spec(rnd, depth, n, p_present=rnd.choice([0.3, 0.7]))
        fmts = tuple(rnd.choice("CU") for _q in range(depth))
        args = (rnd.choice([0, 1]), fmts, rnd.random() < 0.5, rnd.random() < 0.7)
        rec.case("scale", (spec_key(spec),) + args)
        check_transforms(rec, "scale", depth, n, spec, *args)
    return rec.result("depth-2 trees over 2 coordinates x leaf default {0,1} x format assignments x mutability x authoritative/estimated shape x every "
                      "transform (split of each rank, swap, flatten/unflatten, all swizzles); seeded random depth 3-4 tensors; 3-rank tensors with a "
                      "different authoritative size per rank under all 6 permutations; lazily produced fibers (merges, populate, prune, projections) "
                      "with every operand active-range combination; unowned fibers joining a tensor; plus seeded random wider tensors at scale (6-16 coordinates per rank)")


def replay(case):
    rec = Recorder("C14", "replay", 0)
    if case.get("lazy"):
        check_lazy(rec, "replay", case["n"], _deser(case["a"]), _deser(case["b"]), case["act_a"], case["act_b"])
    elif case.get("join"):
        check_join(rec, "replay", case["n"], _deser(case["spec"]), case["default_f"], case["default_t"])
    elif case.get("op") == "swizzle-shape":
        t = build_tensor(_deser(case["spec"]), 3, None, shape=case["dims"])
        ids = t.getRankIds()
        r = t.swizzleRanks([ids[i] for i in case["perm"]])
        expect(rec, "replay", case, "shape", r.getShape(authoritative=True), [case["dims"][i] for i in case["perm"]], "shape re-arranged like the rank ids (swizzle)")
        coords_inside(rec, "replay", case, r, "swizzle")
    else:
        check_transforms(rec, "replay", case["depth"], case["n"], _deser(case["spec"]), case["default"], tuple(case["fmts"]), case["mutable"], case["authoritative"])
    if rec.violations:
        v = rec.violations[0]
        return False, "REPRODUCED: %s: %s (observed %s, expected %s)" % (v["what"], v["clause"], v["observed"], v["expected"])
    return True, "not reproduced"


if __name__ == "__main__":
    raise SystemExit(main(__import__("C14")))
