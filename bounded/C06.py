"""Bounded check for C06: kernel results do not depend on the dataflow (programs written under /verif, run on the real library)."""
import itertools
import random

from common import Recorder, guarded, main
import kernels as K


def operand_contents(idxs, sizes, vals, rnd, density=None):
    pts = list(itertools.product(*[range(sizes[v]) for v in idxs]))
    if density is None:
        for combo in itertools.product([0] + list(vals), repeat=len(pts)):
            yield {p: v for p, v in zip(pts, combo) if v != 0}
    else:
        yield {p: rnd.choice(vals) for p in pts if rnd.random() < density}


def check(rec, part, name, contents, sizes, order, tiles, style):
    expr = K.EXPRESSIONS[name]
    case = dict(expr=name, contents=[{",".join(map(str, k)): v for k, v in c.items()} for c in contents], sizes=sizes, order=order,
                tiles=tiles, style=style)
    want = K.dense_reference(expr, contents, sizes)
    ok, r = guarded(rec, part, case, lambda: K.run_kernel(expr, contents, sizes, order, tiles, style), "the kernel runs")
    if not ok:
        return
    got, _ = r
    if got != want:
        rec.violation(part, "kernel output differs from the dense result", case,
                      "the output equals the dense mathematical result for this loop order / tiling / intersection style", got, want)


def _des(case):
    return [{tuple(int(x) for x in k.split(",") if x != ""): v for k, v in c.items()} for c in case["contents"]]


def run(tier, seed):
    rec = Recorder("C06", tier, seed, budget_s=110 if tier == "quick" else 900)
    rnd = random.Random(seed)
    # exhaustive operand values on tiny shapes, every loop order, both styles
    tiny = {"dot": dict(k=3), "elementwise": dict(m=3), "reduce1": dict(m=3), "copy": dict(m=3), "matvec": dict(m=2, k=2), "reduce2": dict(m=2, k=2),
            "outer": dict(m=2, n=2), "three": dict(m=1, k=2)}
    for name, sizes in tiny.items():
        expr = K.EXPRESSIONS[name]
        gens = [list(operand_contents(idx, sizes, (1, 2), rnd)) for idx in expr[1]]
        combos = list(itertools.product(*gens))
        rnd.shuffle(combos)
        for contents in combos[:400 if tier == "quick" else 5000]:
            for order in K.loop_orders(expr, {}):
                for style in ("two-finger", "leader-follower"):
                    if rec.out_of_time():
                        break
                    rec.case("orders", (name, repr(contents), tuple(order), style), nontrivial=any(contents),
                             sample=dict(expr=name, order=order, style=style))
                    check(rec, "orders", name, list(contents), sizes, order, {}, style)
    # tilings and larger sparse operands (mixed signs: exact cancellation leaves no element behind)
    big = {"matmul": dict(m=3, k=4, n=3), "matvec": dict(m=3, k=5), "dot": dict(k=6), "elementwise": dict(m=6), "reduce2": dict(m=3, k=4),
           "three": dict(m=2, k=4), "outer": dict(m=3, n=3)}
    count = 500 if tier == "quick" else 9000
    names = list(big)
    for i in range(count):
        if rec.out_of_time():
            break
        name = names[i % len(names)]
        sizes = big[name]
        expr = K.EXPRESSIONS[name]
        contents = [next(operand_contents(idx, sizes, (1, 2, 3, -1, -2), rnd, density=rnd.choice([0.3, 0.6, 0.9]))) for idx in expr[1]]
        allidx = sorted(set("".join(expr[1])))
        tiles = {}
        for v in allidx:
            if rnd.random() < 0.5:
                tiles[v] = rnd.randint(1, sizes[v])
        orders = list(K.loop_orders(expr, tiles))
        order = rnd.choice(orders)
        style = rnd.choice(["two-finger", "leader-follower"])
        rec.case("tiled", (name, repr(contents), tuple(order), repr(tiles), style))
        check(rec, "tiled", name, contents, sizes, order, tiles, style)
    # every tile size on one rank of a fixed matmul, all loop orders
    sizes = dict(m=2, k=4, n=2)
    contents = [{(0, 0): 1, (0, 3): 2, (1, 1): 3, (1, 2): -1}, {(0, 1): 2, (1, 0): 1, (2, 0): 3, (3, 1): 4, (2, 1): 1}]
    for v in "mkn":
        for T in range(1, sizes[v] + 1):
            for order in K.loop_orders(K.EXPRESSIONS["matmul"], {v: T}):
                rec.case("all-tiles", (v, T, tuple(order)))
                check(rec, "all-tiles", "matmul", contents, sizes, order, {v: T}, "two-finger")
    # at scale: larger shapes (ranks of 12-40 coordinates), sparse operands, tilings with many tiles
    scale = {"matmul": dict(m=9, k=14, n=8), "matvec": dict(m=12, k=30), "dot": dict(k=40), "elementwise": dict(m=40), "reduce2": dict(m=10, k=20),
             "outer": dict(m=12, n=10), "three": dict(m=6, k=20)}
    snames = list(scale)
    for i in range(30 if tier == "quick" else 400):
        name = snames[i % len(snames)]
        sizes = scale[name]
        expr = K.EXPRESSIONS[name]
        contents = [next(operand_contents(idx, sizes, (1, 2, 3, -1, -2), rnd, density=rnd.choice([0.15, 0.4, 0.8]))) for idx in expr[1]]
        tiles = {}
        for v in sorted(set("".join(expr[1]))):
            if rnd.random() < 0.5:
                tiles[v] = rnd.randint(1, sizes[v])
        order = rnd.choice(list(K.loop_orders(expr, tiles)))
        style = rnd.choice(["two-finger", "leader-follower"])
        rec.case("scale", (name, repr(contents), tuple(order), repr(tiles), style))
        check(rec, "scale", name, contents, sizes, order, tiles, style)
    return rec.result("einsum-like kernels (dot, matrix-vector, matrix-matrix, elementwise, reductions, outer, three operands) written in the library's "
                      "idiom under /verif/bounded/kernels.py: every operand value assignment over {0,1,2} on tiny shapes x every loop order x both "
                      "intersection styles (zero products filtered); seeded random sparse operands with mixed signs x random uniform tilings of any "
                      "subset of ranks x random legal loop orders; every tile size of each rank of a matmul x all loop orders; plus seeded random kernels at scale "
                      "(ranks of 8-40 coordinates); against a dense nested-loop reference")


def replay(case):
    rec = Recorder("C06", "replay", 0)
    check(rec, "replay", case["expr"], _des(case), case["sizes"], case["order"], case["tiles"], case["style"])
    if rec.violations:
        v = rec.violations[0]
        return False, "REPRODUCED: %s: %s (observed %s, expected %s)" % (v["what"], v["clause"], v["observed"], v["expected"])
    return True, "not reproduced"


if __name__ == "__main__":
    raise SystemExit(main(__import__("C06")))
