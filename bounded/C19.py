"""Bounded stand-in for C19: intersection and merge cost models against counts from an independent merge of the raw lists."""
import itertools
import random

from common import Recorder, guarded, main

from fibertree import Fiber, Tensor, Metrics
from fibertree.model import LeaderFollowerIntersector, SkipAheadIntersector, TwoFingerIntersector, Compute


def steps2f(A, B):
    """Comparison steps of a two-finger merge before either list is exhausted."""
    i = j = n = 0
    while i < len(A) and j < len(B):
        n += 1
        if A[i] == B[j]:
            i += 1
            j += 1
        elif A[i] < B[j]:
            i += 1
        else:
            j += 1
    return n


def runs(A, B):
    """Maximal same-side runs plus matches (skip-ahead idiom), before either list is exhausted."""
    i = j = n = 0
    cur = None
    while i < len(A) and j < len(B):
        if A[i] == B[j]:
            n += 1
            cur = None
            i += 1
            j += 1
        elif A[i] < B[j]:
            if cur != 0:
                n += 1
                cur = 0
            i += 1
        else:
            if cur != 1:
                n += 1
                cur = 1
            j += 1
    return n


def collect_nested(pairs, batching):
    """Same with a real outer loop over M (so rows carry the outer coordinate and fibers are distinguishable)."""
    models = dict(two=TwoFingerIntersector(), skip=SkipAheadIntersector(), lfa=LeaderFollowerIntersector(), lfb=LeaderFollowerIntersector())
    n = 1 + max([max(A + B + [0]) for A, B in pairs])
    fa = Fiber(list(range(len(pairs))), [Fiber(list(A), [1] * len(A)) for A, _ in pairs])
    fb = Fiber(list(range(len(pairs))), [Fiber(list(B), [1] * len(B)) for _, B in pairs])
    ta = Tensor.fromFiber(["M", "K"], fa, shape=[len(pairs), n])
    tb = Tensor.fromFiber(["M", "K"], fb, shape=[len(pairs), n])
    rows = [0, 0]
    Metrics.beginCollect()
    try:
        Metrics.trace("K", "intersect_0", consumable=True)
        Metrics.trace("K", "intersect_1", consumable=True)

        def feed():
            t0 = Metrics.consumeTrace("K", "intersect_0")
            t1 = Metrics.consumeTrace("K", "intersect_1")
            models["two"].addTraces(list(t0), list(t1))
            models["skip"].addTraces(list(t0), list(t1))
            models["lfa"].addTraces(list(t0))
            models["lfb"].addTraces(list(t1))
            rows[0] += len(t0)
            rows[1] += len(t1)
        # the library's idiom: co-iterate the outer rank, then the traced rank (rows carry the outer coordinate)
        for m, (a_k, b_k) in ta.getRoot() & tb.getRoot():
            for _ in a_k & b_k:
                pass
            if batching == "per-fiber":
                feed()
        if batching == "one-shot":
            feed()
    finally:
        Metrics.endCollect()
    return {k: v.getNumIntersects() for k, v in models.items()}, rows[0], rows[1]


def check_pairs(rec, part, pairs):
    case = dict(pairs=[[list(A), list(B)] for A, B in pairs])
    visited = [(A, B) for A, B in pairs if A and B]       # the outer intersection skips empty sub-fibers
    want_two = sum(steps2f(A, B) for A, B in visited)
    want_skip = sum(runs(A, B) for A, B in visited)
    results = {}
    for batching in ("per-fiber", "one-shot"):
        ok, r = guarded(rec, part, dict(case, batching=batching), lambda: collect_nested(pairs, batching), "models accept the traces")
        if not ok:
            return
        results[batching] = r
        counts, rows_a, rows_b = r
        exp_a, exp_b = max(rows_a - 1, 0), max(rows_b - 1, 0)        # one header row per trace, once it has started
        if counts["lfa"] != exp_a or counts["lfb"] != exp_b:
            rec.violation(part, "leader-follower count differs from the rows presented", dict(case, batching=batching),
                          "the leader-follower model reports the number of elements its operand presented",
                          (counts["lfa"], counts["lfb"]), (exp_a, exp_b))
        single = len(pairs) == 1
        clause_suffix = "" if (single or batching == "per-fiber") else " (one shot across fibers)"
        if counts["two"] != want_two:
            rec.violation(part, "two-finger count wrong", dict(case, batching=batching),
                          "the two-finger model reports the comparison steps of a two-finger merge of the two coordinate lists" + clause_suffix,
                          counts["two"], want_two)
        if counts["skip"] != want_skip:
            rec.violation(part, "skip-ahead count wrong", dict(case, batching=batching),
                          "the skip-ahead model reports the maximal same-side runs plus matches" + clause_suffix, counts["skip"], want_skip)
    if len(results) == 2:
        a, b = results["per-fiber"][0], results["one-shot"][0]
        if a["lfa"] != b["lfa"] or a["lfb"] != b["lfb"]:
            rec.violation(part, "leader-follower total depends on batching", case, "totals do not depend on how the trace is batched (leader-follower)", a, b)


# ---------------------------------------------------------------- swap-count model
def merge_cost(lists, radix, latency):
    """Independent re-computation of the stated model: per merge round of the given radix, latency per list and per element;
    unbounded latency: comparison count of an insertion-based k-way merge."""
    swaps = 0
    cur = [sorted(l) for l in lists]
    while len(cur) > 1:
        r = min(radix, len(cur))
        new = []
        for i in range(0, len(cur), r):
            grp = cur[i:i + r]
            if latency == "N":
                swaps += kway_compares(grp)
            else:
                swaps += latency * (len(grp) + sum(len(g) for g in grp))
            new.append(sorted(c for g in grp for c in g))
        cur = new
    return swaps


def kway_compares(groups):
    """Insertion into a sorted head list: each insertion costs (number of head entries greater than the new one) + 1, largest first."""
    import bisect
    lists = [sorted(-c for c in g) for g in groups]       # negated ascending == original descending at the end
    head = []
    compares = 0
    for i, l in enumerate(lists):
        elem = (l.pop(), i)
        j = bisect.bisect_right(head, elem)
        compares += len(head) - j + 1
        head.insert(j, elem)
    while head:
        elem = head.pop()
        if not lists[elem[1]]:
            continue
        new = (lists[elem[1]].pop(), elem[1])
        j = bisect.bisect_right(head, new)
        compares += len(head) - j + 1
        head.insert(j, new)
    return compares


def check_swaps(rec, part, lists, radix, latency, payload_val):
    case = dict(lists=[list(l) for l in lists], radix=radix, latency=latency, payload=payload_val)
    subs = [Fiber(sorted(l), [payload_val + k for k in range(len(l))]) for l in lists]
    f = Fiber(list(range(len(subs))), subs)
    n = 1 + max([max(l) for l in lists] + [0])
    t = Tensor.fromFiber(["M", "K"], f, shape=[len(subs), n])
    rad = float("inf") if radix == "inf" else radix
    ok, got = guarded(rec, part, case, lambda: Compute.numSwaps(t, 0, rad, latency), "numSwaps runs")
    if not ok:
        return
    want = merge_cost(lists, len(lists) if radix == "inf" else radix, latency)
    if got != want:
        rec.violation(part, "swap count wrong", case, "the swap-count model charges, per merge round of the given radix, the stated latency per list "
                      "and per element (or the comparison count when unbounded)", got, want)


def run(tier, seed):
    rec = Recorder("C19", tier, seed, budget_s=100 if tier == "quick" else 900)
    rnd = random.Random(seed)
    n = 4 if tier == "quick" else 5
    subsets = [list(s) for k in range(n + 1) for s in itertools.combinations(range(n), k)]
    for A, B in itertools.product(subsets, subsets):
        rec.case("single-fiber", (tuple(A), tuple(B)), nontrivial=bool(A and B), sample=dict(A=A, B=B))
        check_pairs(rec, "single-fiber", [(A, B)])
    small = [list(s) for k in range(4) for s in itertools.combinations(range(3), k)]
    pairs = list(itertools.product(small, small))
    for p1, p2 in itertools.product(pairs, pairs):
        if rec.out_of_time():
            break
        rec.case("two-fibers", (repr(p1), repr(p2)))
        check_pairs(rec, "two-fibers", [p1, p2])
    for _ in range(400 if tier == "quick" else 6000):
        if rec.out_of_time():
            break
        k = rnd.choice([2, 3])
        ps = [(sorted(rnd.sample(range(6), rnd.randint(0, 5))), sorted(rnd.sample(range(6), rnd.randint(0, 5)))) for _ in range(k)]
        rec.case("multi-fiber", repr(ps))
        check_pairs(rec, "multi-fiber", ps)
    lists_pool = [[sorted(rnd.sample(range(8), rnd.randint(1, 4))) for _ in range(k)] for k in (2, 3, 4, 5) for _ in range(12 if tier == "quick" else 80)]
    for lists in lists_pool:
        for radix in (2, 3, 4, 5, "inf"):
            for latency in (1, 2, "N"):
                for pv in (1, 100):
                    rec.case("swaps", (repr(lists), radix, latency, pv))
                    check_swaps(rec, "swaps", lists, radix, latency, pv)
    # at scale: long coordinate lists and many consecutive fibers (batches of 12+ trace rows)
    for _ in range(40 if tier == "quick" else 500):
        k = rnd.choice([1, 2, 6, 12])
        span = rnd.choice([20, 40, 90])
        ps = [(sorted(rnd.sample(range(span), rnd.randint(0, min(span, 30)))), sorted(rnd.sample(range(span), rnd.randint(0, min(span, 30))))) for _q in range(k)]
        rec.case("scale", repr(ps))
        check_pairs(rec, "scale", ps)
    return rec.result("all pairs of coordinate lists over %d coordinates (empty, disjoint, interleaved, identical) through the real intersect_i traces; all "
                      "pairs of two consecutive fibers over 3 coordinates and seeded random 2-3 consecutive fibers over 6, fed fiber by fiber and in one "
                      "shot; swap counts for 2-5 sub-fibers, radices 2..5/inf, latencies 1,2,'N', two payload value sets; oracles: an independent "
                      "two-finger merge / run count / k-way insertion merge of the raw coordinate lists; plus seeded random lists at scale "
                      "(up to 30 coordinates per fiber over a span of 90, up to 12 consecutive fibers)" % n)


def replay(case):
    rec = Recorder("C19", "replay", 0)
    if "lists" in case:
        check_swaps(rec, "replay", case["lists"], case["radix"], case["latency"], case["payload"])
    else:
        check_pairs(rec, "replay", [(a, b) for a, b in case["pairs"]])
    if rec.violations:
        v = rec.violations[0]
        return False, "REPRODUCED: %s: %s (observed %s, expected %s)" % (v["what"], v["clause"], v["observed"], v["expected"])
    return True, "not reproduced"


if __name__ == "__main__":
    raise SystemExit(main(__import__("C19")))
