"""Histories of public mutators/readers over small trees (shared by the bounded parts of C01, C02, C03, C10).

An op is a JSON-serialisable list; apply_op runs it on a tensor or a free-standing fiber through the public API.
Ops that the library rejects with its documented errors (AssertionError, CoordinateError, IndexError) are legal
history steps: the property modules check what a rejection leaves behind.
"""
import itertools
import random

from fibertree import Fiber, Tensor, Payload, CoordPayload
from fibertree.core.fiber import CoordinateError

from gen import build_fiber

REJECTIONS = (AssertionError, CoordinateError, IndexError)


def root_of(x):
    return x.getRoot() if isinstance(x, Tensor) else x


def fiber_at(x, path):
    f = root_of(x)
    for c in path:
        if c not in f.coords:
            return None
        f = f.payloads[f.coords.index(c)]
        if not isinstance(f, Fiber):
            return None
    return f


def depth_below(f):
    d = 1
    while f.payloads and isinstance(f.payloads[0], Fiber):
        d += 1
        f = f.payloads[0]
    return d


def apply_op(x, op, depth):
    """Returns ('ok', value) | ('rejected', exception-name) | ('skip', reason)."""
    name = op[0]
    root = root_of(x)
    try:
        if name == "ref":
            _, point, action, v = op
            r = root.getPayloadRef(*point)
            if len(point) == depth:
                if action == "set":
                    r <<= v
                elif action == "add":
                    r += v
            return "ok", r
        if name == "read":
            _, point = op
            return "ok", root.getPayload(*point)
        if name == "read_noalloc":
            _, point, dflt = op
            return "ok", root.getPayload(*point, allocate=False, default=dflt)
        if name == "position":
            _, path, c = op
            f = fiber_at(x, path)
            if f is None:
                return "skip", "no fiber"
            return "ok", f.getPosition(c)
        f = fiber_at(x, op[1])
        if f is None:
            return "skip", "no fiber at path"
        leaf = len(op[1]) == depth - 1
        if name == "append":
            _, path, c, v = op
            f.append(c, v if leaf else build_fiber(v))
            return "ok", None
        if name == "setitem":
            _, path, pos, c, v = op
            f[pos] = CoordPayload(c, v if leaf else build_fiber(v))
            return "ok", None
        if name == "setitem_val":
            _, path, pos, v = op
            if not leaf:
                return "skip", "interior"
            f[pos] = v
            return "ok", None
        if name == "posref":
            _, path, c = op
            return "ok", f.getPositionRef(c)
        if name == "clear":
            f.clear()
            return "ok", None
        if name == "iadd_scalar":
            if not leaf or f.getShape(all_ranks=False) is None:
                return "skip", "interior or no shape"
            f += op[2]
            return "ok", None
        if name == "imul_scalar":
            if not leaf:
                return "skip", "interior"
            f *= op[2]
            return "ok", None
        if name == "range_ref":
            _, path, lo, hi = op
            for _c, _p in f.iterRangeShapeRef(lo, hi):
                pass
            return "ok", None
        if name == "populate":
            _, path, src, body = op
            if not leaf:
                return "skip", "interior populate handled by C05"
            src = {int(k): v for k, v in src.items()}       # (a replayed case comes back from JSON with string keys)
            g = build_fiber(src)
            i = 0
            for c, (z, a) in f << g:
                act = body[i % len(body)]
                i += 1
                if act == "assign":
                    z <<= a
                elif act == "acc":
                    z += a
                elif act == "reset":
                    z <<= 0
            return "ok", None
        if name == "update_payloads":
            _, path, k = op
            if not leaf:
                return "skip", "interior"
            f.updatePayloads(lambda i, c, p: Payload(p.value + k))
            return "ok", None
        if name == "update_coords":
            _, path, k = op
            f.updateCoords(lambda i, c, p: c + k)
            return "ok", None
        if name == "extend":
            _, path, src = op
            if not leaf:
                return "skip", "interior"
            f.extend(build_fiber({int(k): v for k, v in src.items()}))
            return "ok", None
        if name == "fiber_iadd":
            _, path, src = op
            if not leaf:
                return "skip", "interior"
            f += build_fiber({int(k): v for k, v in src.items()})
            return "ok", None
        if name == "fiber_imul":
            _, path, src = op
            if not leaf:
                return "skip", "interior"
            f *= build_fiber({int(k): v for k, v in src.items()})
            return "ok", None
    except REJECTIONS as e:
        return "rejected", type(e).__name__
    raise ValueError("unknown op %r" % (op,))


def op_universe(depth, n, vals=(0, 1, 2)):
    """A finite universe of ops for trees of the given depth over coordinates 0..n-1."""
    ops = []
    coords = list(range(n))
    points = list(itertools.product(coords, repeat=depth))
    for pt in points:
        ops.append(["ref", list(pt), "none", 0])
        ops.append(["ref", list(pt), "set", 2])
        ops.append(["ref", list(pt), "set", 0])
        ops.append(["ref", list(pt), "add", 1])
        ops.append(["read", list(pt)])
    for d in range(1, depth):
        for pre in itertools.product(coords, repeat=d):
            ops.append(["ref", list(pre), "none", 0])
            ops.append(["read", list(pre)])
    paths = [[]] + [list(p) for d in range(1, depth) for p in itertools.product(coords, repeat=d)]
    for path in paths:
        leaf = len(path) == depth - 1
        for c in coords + [n]:
            ops.append(["append", path, c, 1 if leaf else {}])
            ops.append(["posref", path, c])
        for pos in range(n):
            for c in coords:
                ops.append(["setitem", path, pos, c, 2 if leaf else {0: 1} if depth - len(path) == 2 else {}])
            ops.append(["setitem_val", path, pos, 0])
            ops.append(["setitem_val", path, pos, 2])
        ops.append(["clear", path])
        ops.append(["iadd_scalar", path, 1])
        ops.append(["imul_scalar", path, 0])
        ops.append(["imul_scalar", path, 2])
        ops.append(["range_ref", path, 0, n])
        ops.append(["range_ref", path, 1, n - 1])
        ops.append(["update_payloads", path, 1])
        ops.append(["update_payloads", path, -1])
        ops.append(["update_coords", path, 1])
        for src in ({0: 1}, {1: 0, 2: 2}, {0: 2, 1: 1, 2: 1}, {}):
            ops.append(["populate", path, src, ["assign"]])
            ops.append(["populate", path, src, ["leave", "acc"]])
            ops.append(["populate", path, src, ["reset", "assign"]])
            ops.append(["fiber_iadd", path, src])
            ops.append(["fiber_imul", path, src])
        ops.append(["extend", path, {n: 1}])
        ops.append(["extend", path, {0: 1}])
    return ops
