"""Bounded stand-in for C09: rank transforms move every point to its image and nothing else."""
import itertools
import random

from common import Recorder, guarded, main
from gen import specs, build_tensor, spec_key, random_spec, RANK_IDS
from spec.oracle import raw, is_fiber, unbox, content, spec_content, wf_problems, rb_problems

from fibertree import Fiber, Tensor, Payload


def _ser(spec):
    return {str(k): (_ser(v) if isinstance(v, dict) else v) for k, v in spec.items()}


def _deser(spec):
    return {int(k): (_deser(v) if isinstance(v, dict) else v) for k, v in spec.items()}


def wellformed(rec, part, case, t, what):
    root = t.getRoot()
    depth = len(t.getRankIds())
    probs = wf_problems(root, depth) + rb_problems(t)
    if probs:
        rec.violation(part, "result is not a well-formed tensor", case, "every result is itself a well-formed tensor (%s)" % what, probs, None)
        return False
    return True


def flat_coord(style, cs, shapes):
    """The stated combination of the flattened coordinates."""
    if style == "tuple":
        out = ()
        for c in cs:
            out += c if isinstance(c, tuple) else (c,)
        return out
    if style == "pair":
        # flattening proceeds bottom-up: (top, (middle, low))
        r = cs[-1]
        for c in reversed(cs[:-1]):
            r = (c, r)
        return r
    if style == "linear":
        r = cs[0]
        for c, sh in zip(cs[1:], shapes[1:]):
            r = r * sh + c
        return r
    if style == "absolute":
        return cs[-1]
    if style == "relative":
        return sum(cs)
    raise ValueError(style)


def check_swizzle(rec, part, depth, n, spec, perm):
    case = dict(depth=depth, n=n, spec=_ser(spec), perm=list(perm), op="swizzle")
    t = build_tensor(spec, depth, n)
    ids = t.getRankIds()
    want0 = spec_content(spec)
    new_ids = [ids[i] for i in perm]
    ok, r = guarded(rec, part, case, lambda: t.swizzleRanks(new_ids), "swizzle does not raise")
    if not ok:
        return
    want = {tuple(pt[i] for i in perm): v for pt, v in want0.items()}
    got = content(r.getRoot())
    if got != want:
        rec.violation(part, "swizzled content wrong", case, "swizzling permutes each point's coordinates accordingly", got, want)
        return
    if not wellformed(rec, part, case, r, "swizzle"):
        return
    ok, back = guarded(rec, part, case, lambda: r.swizzleRanks(ids), "inverse swizzle does not raise")
    if ok:
        if content(back.getRoot()) != want0:
            rec.violation(part, "inverse permutation does not restore the content", case, "the inverse permutation restores an equal tensor", content(back.getRoot()), want0)
        else:
            ok2, eq = guarded(rec, part, case, lambda: back == t)
            if ok2 and eq is not True and want0:
                rec.violation(part, "inverse permutation not equal", case, "the inverse permutation restores an equal tensor (==)", eq, True)


def fibers_at(spec, d):
    if d == 0:
        return [spec]
    out = []
    for v in spec.values():
        if isinstance(v, dict):
            out += fibers_at(v, d - 1)
    return out


def check_swap(rec, part, depth, n, spec, d):
    case = dict(depth=depth, n=n, spec=_ser(spec), d=d, op="swap")
    t = build_tensor(spec, depth, n)
    want0 = spec_content(spec)
    clause = "swap does not raise"
    if any(not spec_content(f) for f in fibers_at(spec, d)):
        clause = "swapRanks of a tree holding an empty (sub-)fiber at the swapped depth does not raise"
    ok, r = guarded(rec, part, case, lambda: t.swapRanks(depth=d), clause)
    if not ok:
        return
    want = {pt[:d] + (pt[d + 1], pt[d]) + pt[d + 2:]: v for pt, v in want0.items()}
    got = content(r.getRoot())
    if got != want:
        rec.violation(part, "swapped content wrong", case, "swapping ranks permutes each point's coordinates accordingly", got, want)
        return
    wellformed(rec, part, case, r, "swap")


def check_flatten(rec, part, depth, n, spec, d, levels, style):
    case = dict(depth=depth, n=n, spec=_ser(spec), d=d, levels=levels, style=style, op="flatten")
    t = build_tensor(spec, depth, n)
    want0 = spec_content(spec)
    shapes = [n] * (levels + 1)
    want = {}
    collision = False
    for pt, v in want0.items():
        new = pt[:d] + (flat_coord(style, list(pt[d:d + levels + 1]), shapes),) + pt[d + levels + 1:]
        collision = collision or new in want
        want[new] = v
    if collision:
        return      # flattening (unlike merging) is only defined when the combined coordinates are distinct
    ok, r = guarded(rec, part, case, lambda: t.flattenRanks(depth=d, levels=levels, coord_style=style), "flatten does not raise")
    if not ok:
        return
    got = content(r.getRoot())
    if got != want:
        rec.violation(part, "flattened content wrong", case, "flattening replaces the chosen ranks by one rank whose coordinate is the stated combination (%s)" % style, got, want)
        return
    if not wellformed(rec, part, case, r, "flatten"):
        return
    if style in ("tuple", "pair"):
        ok, back = guarded(rec, part, case, lambda: r.unflattenRanks(depth=d, levels=levels), "unflatten does not raise")
        if ok:
            if content(back.getRoot()) != want0:
                rec.violation(part, "unflatten does not invert flatten", case, "unflattening inverts flattening", content(back.getRoot()), want0)
            elif wellformed(rec, part, case, back, "unflatten"):
                if back.getRankIds() != t.getRankIds():
                    rec.violation(part, "unflatten rank ids differ", case, "unflattening inverts flattening (rank ids)", back.getRankIds(), t.getRankIds())


def check_merge(rec, part, depth, n, spec, style):
    """Merging with absolute/relative coordinates reduces colliding points with the merge function."""
    case = dict(depth=depth, n=n, spec=_ser(spec), style=style, op="merge")
    t = build_tensor(spec, depth, n)
    want0 = spec_content(spec)
    ok, r = guarded(rec, part, case, lambda: t.mergeRanks(depth=0, levels=1, coord_style=style, merge_fn=lambda ps: sum(p.value if hasattr(p, "value") else p for p in ps)),
                    "merge does not raise")
    if not ok:
        return
    if depth != 2:
        return
    want = {}
    for pt, v in want0.items():
        c = flat_coord(style, list(pt[:2]), [n, n])
        want[(c,)] = want.get((c,), 0) + v
    want = {k: v for k, v in want.items() if v != 0}
    got = content(r.getRoot())
    if got != want:
        rec.violation(part, "merged content wrong", case, "merging reduces colliding points with the merge function (%s)" % style, got, want)
        return
    wellformed(rec, part, case, r, "merge")


def check_split_flatten(rec, part, depth, n, spec, step, d):
    case = dict(depth=depth, n=n, spec=_ser(spec), step=step, d=d, op="split-flatten")
    t = build_tensor(spec, depth, n)
    want0 = spec_content(spec)
    ok, r = guarded(rec, part, case, lambda: t.splitUniform(step, depth=d).flattenRanks(depth=d, levels=1, coord_style="absolute"),
                    "split then flatten(absolute) does not raise")
    if not ok:
        return
    got = content(r.getRoot())
    if got != want0:
        rec.violation(part, "flattening a split with absolute coordinates does not restore the original", case,
                      "flattening a split with absolute coordinates restores the original", got, want0)
        return
    wellformed(rec, part, case, r, "split+flatten")


def check_update_below(rec, part, depth, n, spec, d):
    """The *Below forms visit every fiber at the depth (update descent)."""
    case = dict(depth=depth, n=n, spec=_ser(spec), d=d, op="updateCoords")
    t = build_tensor(spec, depth, n)
    want0 = spec_content(spec)
    ok, r = guarded(rec, part, case, lambda: t.updateCoords(lambda i, c, p: c + 10, depth=d), "updateCoords does not raise")
    if ok:
        want = {pt[:d] + (pt[d] + 10,) + pt[d + 1:]: v for pt, v in want0.items()}
        got = content(r.getRoot())
        if got != want:
            rec.violation(part, "updateCoords at depth missed a fiber", case, "coordinate updates at a depth reach every fiber at that depth", got, want)
    case2 = dict(case, op="updatePayloads")
    ok, r = guarded(rec, part, case2, lambda: t.updatePayloads(lambda i, c, p: Payload(p.value * 3), depth=depth - 1), "updatePayloads does not raise")
    if ok:
        want = {pt: v * 3 for pt, v in want0.items()}
        got = content(r.getRoot())
        if got != want:
            rec.violation(part, "updatePayloads wrong", case2, "payload updates reach every element of every leaf fiber, each at its own position", got, want)


def run(tier, seed):
    rec = Recorder("C09", tier, seed, budget_s=110 if tier == "quick" else 900)
    rnd = random.Random(seed)
    s2 = list(specs(2, 2))
    for spec in s2:
        for perm in itertools.permutations(range(2)):
            rec.case("swizzle", (spec_key(spec), perm), sample=dict(spec=_ser(spec), perm=list(perm)))
            check_swizzle(rec, "swizzle", 2, 2, spec, perm)
        rec.case("swap", spec_key(spec))
        check_swap(rec, "swap", 2, 2, spec, 0)
        for style in ("tuple", "pair", "linear", "absolute", "relative"):
            rec.case("flatten", (spec_key(spec), style))
            check_flatten(rec, "flatten", 2, 2, spec, 0, 1, style)
        for style in ("absolute", "relative"):
            rec.case("merge", (spec_key(spec), style))
            check_merge(rec, "merge", 2, 2, spec, style)
        for step in (1, 2):
            for d in (0, 1):
                rec.case("split-flatten", (spec_key(spec), step, d))
                check_split_flatten(rec, "split-flatten", 2, 2, spec, step, d)
        for d in (0, 1):
            rec.case("update", (spec_key(spec), d))
            check_update_below(rec, "update", 2, 2, spec, d)
    count = 700 if tier == "quick" else 12000
    for _ in range(count):
        if rec.out_of_time():
            break
        depth = rnd.choice([3, 3, 4])
        n = 2 if depth == 4 else rnd.choice([2, 3])
        spec = random_spec(rnd, depth, n, p_present=0.7)
        which = rnd.choice(["swizzle", "swizzle", "swap", "flatten", "flatten", "split-flatten", "update"])
        if which == "swizzle":
            perm = list(range(depth))
            rnd.shuffle(perm)
            rec.case("swizzle", (spec_key(spec), tuple(perm)))
            check_swizzle(rec, "swizzle", depth, n, spec, perm)
        elif which == "swap":
            d = rnd.randrange(depth - 1)
            rec.case("swap", (spec_key(spec), d))
            check_swap(rec, "swap", depth, n, spec, d)
        elif which == "flatten":
            d = rnd.randrange(depth - 1)
            levels = rnd.randint(1, depth - 1 - d)
            style = rnd.choice(["tuple", "pair", "tuple", "linear"]) if levels == 1 else rnd.choice(["tuple", "pair"])
            rec.case("flatten", (spec_key(spec), d, levels, style))
            check_flatten(rec, "flatten", depth, n, spec, d, levels, style)
        elif which == "split-flatten":
            d = rnd.randrange(depth)
            rec.case("split-flatten", (spec_key(spec), d))
            check_split_flatten(rec, "split-flatten", depth, n, spec, rnd.choice([1, 2]), d)
        else:
            d = rnd.randrange(depth)
            rec.case("update", (spec_key(spec), d))
            check_update_below(rec, "update", depth, n, spec, d)
    # 3-rank swizzles: all permutations on all small sparse occupancy patterns (two points)
    pts = list(itertools.product(range(2), repeat=3))
    for a, b in itertools.combinations(pts, 2):
        spec = {}
        for pt, v in ((a, 1), (b, 2)):
            cur = spec
            for c in pt[:-1]:
                cur = cur.setdefault(c, {})
            cur[pt[-1]] = v
        for perm in itertools.permutations(range(3)):
            rec.case("swizzle3", (a, b, perm))
            check_swizzle(rec, "swizzle3", 3, 2, spec, perm)
    # at scale: wider tensors (8-20 coordinates per rank, depth 2-3) with the same oracles
    for _ in range(40 if tier == "quick" else 500):
        if rec.out_of_time():
            break
        depth = rnd.choice([2, 2, 3])
        n = rnd.choice([8, 12, 20]) if depth == 2 else rnd.choice([5, 8])
        spec = random_spec(rnd, depth, n, p_present=rnd.choice([0.3, 0.6]))
        which = rnd.choice(["swizzle", "swap", "flatten", "split-flatten", "update", "merge"])
        if which == "swizzle":
            perm = list(range(depth))
            rnd.shuffle(perm)
            rec.case("scale", ("swizzle", spec_key(spec), tuple(perm)))
            check_swizzle(rec, "scale", depth, n, spec, perm)
        elif which == "swap":
            d = rnd.randrange(depth - 1)
            rec.case("scale", ("swap", spec_key(spec), d))
            check_swap(rec, "scale", depth, n, spec, d)
        elif which == "flatten":
            d = rnd.randrange(depth - 1)
            levels = rnd.randint(1, depth - 1 - d)
            style = rnd.choice(["tuple", "pair", "linear"]) if levels == 1 else rnd.choice(["tuple", "pair"])
            rec.case("scale", ("flatten", spec_key(spec), d, levels, style))
            check_flatten(rec, "scale", depth, n, spec, d, levels, style)
        elif which == "split-flatten":
            d = rnd.randrange(depth)
            rec.case("scale", ("split-flatten", spec_key(spec), d))
            check_split_flatten(rec, "scale", depth, n, spec, rnd.choice([1, 3, 7]), d)
        elif which == "merge" and depth == 2:
            style = rnd.choice(["absolute", "relative"])
            rec.case("scale", ("merge", spec_key(spec), style))
            check_merge(rec, "scale", 2, n, spec, style)
        else:
            d = rnd.randrange(depth)
            rec.case("scale", ("update", spec_key(spec), d))
            check_update_below(rec, "scale", depth, n, spec, d)
    return rec.result("every depth-2 tree over 2 coordinates (explicit defaults, empty sub-fibers, empty tensor) x {all permutations, swap, 5 flatten styles with "
                      "unflatten, absolute/relative merge, split+flatten(absolute), coordinate/payload updates at every depth}; seeded random depth 3-4 "
                      "tensors with random permutations / (depth, levels, style); all two-point 3-rank tensors x all 6 permutations; content maps compared "
                      "with the image under the stated coordinate map, results checked for WF and rank bookkeeping, inverses applied; plus seeded random "
                      "wider tensors at scale (8-20 coordinates per rank)")


def replay(case):
    rec = Recorder("C09", "replay", 0)
    spec = _deser(case["spec"])
    op = case["op"]
    if op == "swizzle":
        check_swizzle(rec, "replay", case["depth"], case["n"], spec, case["perm"])
    elif op == "swap":
        check_swap(rec, "replay", case["depth"], case["n"], spec, case["d"])
    elif op == "flatten":
        check_flatten(rec, "replay", case["depth"], case["n"], spec, case["d"], case["levels"], case["style"])
    elif op == "merge":
        check_merge(rec, "replay", case["depth"], case["n"], spec, case["style"])
    elif op == "split-flatten":
        check_split_flatten(rec, "replay", case["depth"], case["n"], spec, case["step"], case["d"])
    else:
        check_update_below(rec, "replay", case["depth"], case["n"], spec, case["d"])
    if rec.violations:
        v = rec.violations[0]
        return False, "REPRODUCED: %s: %s (observed %s, expected %s)" % (v["what"], v["clause"], v["observed"], v["expected"])
    return True, "not reproduced"


if __name__ == "__main__":
    raise SystemExit(main(__import__("C09")))
