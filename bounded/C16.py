"""Bounded stand-in for C16: traces are well-formed -- one sorted, correctly addressed row per traced event."""
import itertools
import os
import random
import tempfile

from common import Recorder, guarded, main

from fibertree import Fiber, Tensor, Metrics, Payload

# an operand is a list of rows; a row is a list of (coord, value) pairs with explicit zeros allowed (value 0)


def rows_choices(n, vals=(0, 1)):
    for combo in itertools.product([None] + list(vals), repeat=n):
        yield [(c, v) for c, v in enumerate(combo) if v is not None]


def mk_fiber(row):
    return Fiber([c for c, _ in row], [v for _, v in row])


def mk_tensor(name, rows, n, ids=("M", "K")):
    cs = [m for m, r in enumerate(rows) if r is not None]
    f = Fiber(cs, [mk_fiber(rows[m]) for m in cs])
    return Tensor.fromFiber(list(ids), f, shape=[len(rows), n], name=name)


def presented(row):
    return [(i, c) for i, (c, v) in enumerate(row) if v != 0]          # (raw index, coord)


def nonempty_rows(rows):
    return [(i, m) for i, m in enumerate(m for m, r in enumerate(rows) if r is not None) if any(v != 0 for _, v in rows[m])]


def two_finger_visits(PA, PB):
    """Elements of each side visited by a two-finger merge (every element compared, plus the head at which it stops)."""
    i = j = 0
    va, vb, matches = [], [], []
    while i < len(PA) and j < len(PB):
        if PA[i][1] == PB[j][1]:
            va.append(PA[i]); vb.append(PB[j]); matches.append(PA[i][1])
            i += 1; j += 1
        elif PA[i][1] < PB[j][1]:
            va.append(PA[i]); i += 1
        else:
            vb.append(PB[j]); j += 1
    if i < len(PA):
        va.append(PA[i])
    if j < len(PB):
        vb.append(PB[j])
    return va, vb, matches


# ------------------------------------------------------------------ kernels with their independently computed expected rows
def kernel_iter(A, n):
    ta = mk_tensor("A", A, n)
    exp = {("M", "iter"): [], ("K", "iter"): []}
    stored_m = [m for m, r in enumerate(A) if r is not None]
    for m in stored_m:
        if not any(v != 0 for _, v in A[m]):
            continue
        exp[("M", "iter")].append(((m,), stored_m.index(m)))
        for idx, k in presented(A[m]):
            exp[("K", "iter")].append(((m, k), idx))

    def run():
        for m, a_k in ta.getRoot():
            for k, v in a_k:
                pass
    return run, exp, ["M", "K"]


def kernel_intersect(A, B, n):
    ta, tb = mk_tensor("A", A, n), mk_tensor("B", B, n)
    exp = {(r, t): [] for r in "MK" for t in ("iter", "intersect_0", "intersect_1")}
    sa = [m for m, r in enumerate(A) if r is not None]
    sb = [m for m, r in enumerate(B) if r is not None]
    PA = [(sa.index(m), m) for m in sa if any(v != 0 for _, v in A[m])]
    PB = [(sb.index(m), m) for m in sb if any(v != 0 for _, v in B[m])]
    va, vb, ms = two_finger_visits(PA, PB)
    exp[("M", "intersect_0")] = [((m,), i) for i, m in va]
    exp[("M", "intersect_1")] = [((m,), i) for i, m in vb]
    for o, m in enumerate(ms):
        exp[("M", "iter")].append(((m,), o))
        ka, kb, ks = two_finger_visits(presented(A[m]), presented(B[m]))
        exp[("K", "intersect_0")] += [((m, k), i) for i, k in ka]
        exp[("K", "intersect_1")] += [((m, k), i) for i, k in kb]
        exp[("K", "iter")] += [((m, k), o2) for o2, k in enumerate(ks)]

    def run():
        for m, (a_k, b_k) in ta.getRoot() & tb.getRoot():
            for k, (x, y) in a_k & b_k:
                pass
    return run, exp, ["M", "K"]


def kernel_populate(Z, A, n):
    tz, ta = mk_tensor("Z", Z, n), mk_tensor("A", A, n)
    exp = {("M", "populate_1"): [], ("K", "populate_1"): [], ("M", "iter"): [], ("K", "iter"): []}
    sa = [m for m, r in enumerate(A) if r is not None]
    for o, m in enumerate(mm for mm in sa if any(v != 0 for _, v in A[mm])):
        exp[("M", "populate_1")].append(((m,), o))
        exp[("M", "iter")].append(((m,), o))
        for o2, (idx, k) in enumerate(presented(A[m])):
            exp[("K", "populate_1")].append(((m, k), o2))
            exp[("K", "iter")].append(((m, k), o2))
    unordered = {("K", "populate_read_0"), ("K", "populate_write_0"), ("M", "populate_read_0"), ("M", "populate_write_0")}

    def run():
        for m, (z_k, a_k) in tz.getRoot() << ta.getRoot():
            for k, (z, a) in z_k << a_k:
                z += a
    return run, exp, ["M", "K"], unordered


def kernel_flat(A3, K_, n, trace_outer):
    """A loop nest whose outer rank is a flattened rank with tuple coordinates (registered with associateShape)."""
    M_ = len(A3)
    nest = [[[dict(A3[m][k]).get(c, 0) if A3[m][k] is not None else 0 for c in range(n)] for k in range(K_)] for m in range(M_)]
    t = Tensor.fromUncompressed(rank_ids=["M", "K", "N"], root=nest)
    flat = t.flattenRanks(depth=0, levels=1)
    flat.setRankIds(["MK", "N"])
    root = flat.getRoot()
    exp = {("N", "iter"): []}
    if trace_outer:
        exp[("MK", "iter")] = []
    o = 0
    for m in range(M_):
        for k in range(K_):
            row = [(c, v) for c, v in enumerate(nest[m][k]) if v != 0]
            if not row:
                continue
            if trace_outer:
                exp[("MK", "iter")].append(((m * K_ + k,), o))
            for o2, (c, v) in enumerate(row):
                exp[("N", "iter")].append(((m * K_ + k, c), o2))
            o += 1

    def run():
        for mk, a_n in root:
            for c, v in a_n:
                pass

    def setup():
        Metrics.associateShape("MK", (M_, K_))
    return run, exp, ["MK", "N"], set(), setup


def collect(run, regs, d, tag, cached=None, consumable=False, setup=None):
    prefix = os.path.join(d, tag)
    mem = {}
    Metrics.beginCollect(prefix)
    try:
        if setup is not None:
            setup()
        if cached is not None:
            Metrics.setNumCachedUses(cached)
        for rank, typ in regs:
            Metrics.trace(rank, typ, consumable=consumable)
        run()
        if consumable:
            for rank, typ in regs:
                mem[(rank, typ)] = [list(r) for r in Metrics.consumeTrace(rank, typ)]
    finally:
        Metrics.endCollect()
        Metrics.setNumCachedUses(1000)
    files = {}
    for f in sorted(os.listdir(d)):
        if f.startswith(tag + "-"):
            name = f[len(tag) + 1:-4]
            rank, typ = name.split("-", 1)
            files[(rank, typ)] = [l.rstrip("\n").split(",") for l in open(os.path.join(d, f))]
            os.remove(os.path.join(d, f))
    return files, mem


def check_kernel(rec, part, case, build):
    built = build()
    run, exp, order = built[0], built[1], built[2]
    stamp_only = built[3] if len(built) > 3 else set()
    setup = built[4] if len(built) > 4 else None
    regs = sorted(set(exp) | stamp_only)
    d = tempfile.mkdtemp(prefix="c16-")
    try:
        ok, r = guarded(rec, part, case, lambda: collect(build()[0], regs, d, "t", setup=setup), "the traced kernel runs")
        if not ok:
            return
        files, _ = r
        for (rank, typ) in regs:
            c2 = dict(case, rank=rank, type=typ)
            rows = files.get((rank, typ))
            want = exp.get((rank, typ))
            if rows is None:
                if want:
                    rec.violation(part, "trace file missing", c2, "each trace holds one row per traced access", None, len(want))
                continue
            depth = order.index(rank) + 1
            header = [r + "_pos" for r in order[:depth]] + order[:depth] + ["fiber_pos"]
            if rows and rows[0] != header:
                rec.violation(part, "header wrong", c2, "the trace starts with a header naming the loop ranks down to the traced rank", rows[0], header)
                continue
            try:
                body = [[int(x) for x in r] for r in rows[1:]]
            except ValueError:
                rec.violation(part, "a row holds a non-integer field", c2, "every row holds the iteration stamp, the coordinates and the position as integers, matching the header column for column", rows[1:4], header)
                continue
            if any(len(r) != len(header) for r in body):
                rec.violation(part, "row width differs from the header", c2, "every row has the header's fields", body, header)
                continue
            stamps = [tuple(r[:depth]) for r in body]
            strict = typ == "iter"
            for a, b in zip(stamps, stamps[1:]):
                if (a >= b) if strict else (a > b):
                    rec.violation(part, "iteration stamps out of order", c2,
                                  "iteration stamps are lexicographically non-decreasing (strictly increasing for plain iteration traces)", stamps, None)
                    break
            if (rank, typ) in stamp_only:
                continue
            got = [(tuple(r[depth:2 * depth]), r[-1]) for r in body]
            if [g[0] for g in got] != [w[0] for w in want]:
                rec.violation(part, "rows do not match the traced accesses", c2,
                              "exactly one row per traced access in execution order, whose coordinates identify the element touched", [g[0] for g in got], [w[0] for w in want])
                continue
            if got != want:
                clause = "the position is the element's index in the fiber it was read from"
                if typ.startswith("intersect") and case.get("explicit_zeros"):
                    clause += " (intersection operand storing empty elements)"
                rec.violation(part, "fiber position wrong", c2, clause, [g[1] for g in got], [w[1] for w in want])
        # flush thresholds and consumable traces
        base = files
        for cached in (2, 3):
            ok, r = guarded(rec, part, dict(case, cached=cached), lambda: collect(build()[0], regs, d, "t", cached=cached, setup=setup), "the traced kernel runs (flush threshold)")
            if ok and r[0] != base:
                rec.violation(part, "trace content depends on the flush threshold", dict(case, cached=cached),
                              "the content does not depend on how many rows are buffered before being flushed", None, None)
        ok, r = guarded(rec, part, dict(case, consumable=True), lambda: collect(build()[0], regs, d, "t", consumable=True, setup=setup), "the traced kernel runs (consumable)")
        if ok:
            _, mem = r
            for key, rows in base.items():
                if key in mem and [[str(x) for x in row] for row in mem[key]] != rows:
                    rec.violation(part, "consumable trace differs from the file trace", dict(case, rank=key[0], type=key[1]),
                                  "in-memory (consumable) traces deliver the same rows", mem[key], rows)
    finally:
        for f in os.listdir(d):
            os.remove(os.path.join(d, f))
        os.rmdir(d)


def has_zero(rows):
    """Does the operand store an element that presents nothing (explicit default leaf, or a row without content)?"""
    return any(v == 0 for r in rows if r is not None for _, v in r) or any(r is not None and not any(v != 0 for _, v in r) for r in rows)


def run(tier, seed):
    rec = Recorder("C16", tier, seed, budget_s=100 if tier == "quick" else 900)
    rnd = random.Random(seed)
    n = 3
    rc = list(rows_choices(n)) + [None]
    pure = [r for r in rc if r is None or all(v != 0 for _, v in r)]
    count = 150 if tier == "quick" else 2500
    for _ in range(count):
        if rec.out_of_time():
            break
        A = [rnd.choice(rc) for _ in range(3)]
        case = dict(kernel="iter", A=A, explicit_zeros=has_zero(A))
        rec.case("iter", repr(A), sample=case)
        check_kernel(rec, "iter", case, lambda: kernel_iter(A, n))
    for _ in range(count):
        if rec.out_of_time():
            break
        zeros = rnd.random() < 0.4
        pool = rc if zeros else pure
        A = [rnd.choice(pool) for _ in range(3)]
        B = [rnd.choice(pool) for _ in range(3)]
        case = dict(kernel="intersect", A=A, B=B, explicit_zeros=has_zero(A) or has_zero(B))
        rec.case("intersect", (repr(A), repr(B)))
        check_kernel(rec, "intersect", case, lambda: kernel_intersect(A, B, n))
    for _ in range(count):
        if rec.out_of_time():
            break
        Z = [rnd.choice(pure) for _ in range(3)]
        A = [rnd.choice(pure) for _ in range(3)]
        case = dict(kernel="populate", Z=Z, A=A, explicit_zeros=False)
        rec.case("populate", (repr(Z), repr(A)))
        check_kernel(rec, "populate", case, lambda: kernel_populate(Z, A, n))
    for _ in range(60 if tier == "quick" else 800):
        if rec.out_of_time():
            break
        A3 = [[rnd.choice(pure) for _ in range(2)] for _ in range(rnd.randint(1, 3))]
        outer = rnd.random() < 0.5
        case = dict(kernel="flat", A3=A3, trace_outer=outer, explicit_zeros=False)
        rec.case("flattened-outer-rank", (repr(A3), outer))
        check_kernel(rec, "flattened-outer-rank", case, lambda: kernel_flat(A3, 2, n, outer))
    # at scale: more rows and longer rows (8-12 x 12-24 operands), traces of several dozen rows
    def big_rows(rows, nn, zeros):
        out = []
        for _m in range(rows):
            if rnd.random() < 0.15:
                out.append(None)
            else:
                vals = (0, 1, 2) if zeros else (1, 2)
                out.append([(c, rnd.choice(vals)) for c in range(nn) if rnd.random() < rnd.choice([0.2, 0.6])])
        return out
    for _ in range(20 if tier == "quick" else 300):
        if rec.out_of_time():
            break
        rows, nn = rnd.choice([(8, 12), (12, 24), (10, 16)])
        zeros = rnd.random() < 0.3
        A, B = big_rows(rows, nn, zeros), big_rows(rows, nn, zeros)
        case = dict(kernel="iter", A=A, n=nn, explicit_zeros=has_zero(A))
        rec.case("scale", ("iter", repr(A)))
        check_kernel(rec, "scale", case, lambda: kernel_iter(A, nn))
        case = dict(kernel="intersect", A=A, B=B, n=nn, explicit_zeros=has_zero(A) or has_zero(B))
        rec.case("scale", ("intersect", repr(A), repr(B)))
        check_kernel(rec, "scale", case, lambda: kernel_intersect(A, B, nn))
        Z, A2 = big_rows(rows, nn, False), big_rows(rows, nn, False)
        case = dict(kernel="populate", Z=Z, A=A2, n=nn, explicit_zeros=False)
        rec.case("scale", ("populate", repr(Z), repr(A2)))
        check_kernel(rec, "scale", case, lambda: kernel_populate(Z, A2, nn))
    return rec.result("seeded random 2-level loop nests over 3x3 operands (rows absent / empty / with explicit zeros): plain iteration, two-operand "
                      "intersection at both ranks, populate at both ranks; all trace types registered (iter, intersect_i, populate_i, populate_read/"
                      "write_i); header, row width, stamp order, rows compared one by one with an independent re-execution of the loop nest on plain "
                      "lists; flush thresholds 2, 3, 1000; consumable vs file traces; plus seeded random loop nests at scale (8-12 rows of up to 24 coordinates)")


def replay(case):
    rec = Recorder("C16", "replay", 0)
    n = case.get("n", 3)
    tl = lambda rows: [None if r is None else [tuple(x) for x in r] for r in rows]
    if case["kernel"] == "iter":
        A = tl(case["A"])
        check_kernel(rec, "replay", case, lambda: kernel_iter(A, n))
    elif case["kernel"] == "intersect":
        A, B = tl(case["A"]), tl(case["B"])
        check_kernel(rec, "replay", case, lambda: kernel_intersect(A, B, n))
    elif case["kernel"] == "flat":
        A3 = [tl(r) for r in case["A3"]]
        check_kernel(rec, "replay", case, lambda: kernel_flat(A3, 2, n, case["trace_outer"]))
    else:
        Z, A = tl(case["Z"]), tl(case["A"])
        check_kernel(rec, "replay", case, lambda: kernel_populate(Z, A, n))
    if rec.violations:
        v = rec.violations[0]
        return False, "REPRODUCED: %s: %s (observed %s, expected %s)" % (v["what"], v["clause"], v["observed"], v["expected"])
    return True, "not reproduced"


if __name__ == "__main__":
    raise SystemExit(main(__import__("C16")))
