"""Bounded stand-in for C07: every traversal mode enumerates exactly the slice it names."""
import itertools
import random

from common import Recorder, guarded, main
from gen import specs1, specs, build_fiber, build_tensor, spec_key, scale_spec
from spec.oracle import raw, is_fiber, is_box, unbox, content, tensor_snapshot

from fibertree import Fiber, Tensor, Payload


def _ser(spec):
    return {str(k): (_ser(v) if isinstance(v, dict) else v) for k, v in spec.items()}


def _deser(spec):
    return {int(k): (_deser(v) if isinstance(v, dict) else v) for k, v in spec.items()}


def nonempty(p, default=0):
    if is_fiber(p):
        return any(nonempty(q, default) for q in p.payloads)
    return unbox(p) != default


def mk(spec, depth, n, owned, fmt="C", active=None, default=0):
    if owned:
        t = build_tensor(spec, depth, n, default=default)
        f = t.getRoot()
        if fmt == "U":
            t.setFormat(t.getRankIds()[0], "U")
    else:
        t = None
        f = build_fiber(spec, depth, shape=n, default=default)
        if fmt == "U":
            f.getRankAttrs().setFormat("U")
    if active is not None:
        f.setActive(active)
    return t, f


def pairs(it):
    return [(c, p) for c, p in it]


def check_fiber(rec, part, depth, n, spec, owned, default=0, ranges=None, actives=None, shape_ranges=None):
    """ranges / actives / shape_ranges: explicit samples (used at scale) instead of the exhaustive enumeration over n."""
    case = dict(depth=depth, n=n, spec=_ser(spec), owned=owned, default=default)
    if ranges is not None:
        case.update(ranges=[list(r) for r in ranges], actives=[list(a) if a else None for a in actives], shape_ranges=[list(r) for r in shape_ranges])
    t, f = mk(spec, depth, n, owned, default=default)
    stored = list(zip(f.coords, f.payloads))
    occ = [(c, p) for c, p in stored if nonempty(p, default)]
    snap0 = (tensor_snapshot(t) if t else None, raw(f))

    def same(got, want, what, c2):
        if [c for c, _ in got] != [c for c, _ in want]:
            rec.violation(part, "wrong coordinates", c2, what, [c for c, _ in got], [c for c, _ in want])
            return False
        for (c, p), (_, q) in zip(got, want):
            if q is not None and p is not q:
                rec.violation(part, "payload is not the stored payload", c2, what + " (payload identity)", unbox(p) if not is_fiber(p) else "fiber", None)
                return False
        return True

    # occupancy iteration, default iteration (format C)
    ok, got = guarded(rec, part, case, lambda: pairs(f.iterOccupancy()))
    if ok:
        same(got, occ, "iterOccupancy yields the non-empty elements in ascending order", case)
    ok, got = guarded(rec, part, case, lambda: pairs(f))
    if ok:
        same(got, occ, "default iteration of a compressed rank is occupancy iteration", case)
    # range iteration with every range and every valid start_pos
    for lo, hi in (itertools.product([None] + list(range(n + 1)), repeat=2) if ranges is None else ranges):
        want = [(c, p) for c, p in occ if (lo is None or c >= lo) and (hi is None or c < hi)]
        c2 = dict(case, mode="iterRange", lo=lo, hi=hi)
        ok, got = guarded(rec, part, c2, lambda: pairs(f.iterRange(lo, hi)))
        if ok:
            same(got, want, "iterRange yields the non-empty elements clipped to the half-open range", c2)
        # a valid saved-position shortcut: any position at or before the first element that would be yielded
        firstpos = next((i for i, (c, p) in enumerate(stored) if want and c == want[0][0]), len(stored) - 1 if stored else None)
        if firstpos is not None:
            for sp in (range(0, firstpos + 1) if ranges is None else sorted({0, firstpos, firstpos // 2})):
                if any(((lo is None or c >= lo) and (hi is None or c < hi) and nonempty(p, default)) for c, p in stored[:sp]):
                    continue
                c3 = dict(c2, start_pos=sp)
                ok, got = guarded(rec, part, c3, lambda: pairs(f.iterRange(lo, hi, start_pos=sp)))
                if ok and same(got, want, "a valid start_pos never changes what iterRange yields", c3) and got:
                    sp2 = f.getSavedPos()
                    if not (0 <= sp2 < len(f.coords) and f.coords[sp2] <= got[-1][0]):
                        # (the exact position is the library's business; what later shortcuts need is that it is not past the last element yielded)
                        rec.violation(part, "saved position is past the last element yielded", c3,
                                      "after a shortcut traversal the saved position is a valid shortcut for anything at or after the last element yielded", sp2, None)
    # active range and shape iteration (no reference creation): tree untouched
    for act in ([None] + [(a, b) for a in range(n) for b in range(a, n + 1)] if actives is None else actives):
        t2, g = mk(spec, depth, n, owned, active=act, default=default)
        lo, hi = act if act else (0, n)
        st2 = list(zip(g.coords, g.payloads))
        c2 = dict(case, mode="active", active=act)
        ok, got = guarded(rec, part, c2, lambda: pairs(g.iterActive()))
        if ok:
            same(got, [(c, p) for c, p in st2 if nonempty(p, default) and lo <= c < hi], "iterActive yields the non-empty elements inside the active range", c2)
        before = (tensor_snapshot(t2) if t2 else None, raw(g))
        ok, got = guarded(rec, part, c2, lambda: pairs(g.iterActiveShape()))
        if ok:
            d = dict(st2)
            same(got, [(c, d.get(c)) for c in range(lo, hi)], "iterActiveShape yields every coordinate of the active range", c2)
            for c, p in got:
                if c not in d and depth == 1 and unbox(p) != default:
                    rec.violation(part, "absent coordinate not delivered as the default", c2, "shape iteration delivers the default for absent coordinates", unbox(p), default)
            if (tensor_snapshot(t2) if t2 else None, raw(g)) != before:
                rec.violation(part, "non-reference shape iteration changed the tree", c2, "non-reference iteration never inserts", None, None)
    for lo, hi, step in ([(a, b, s) for a in range(n) for b in range(a, n + 1) for s in (1, 2)] if shape_ranges is None else shape_ranges):
        t2, g = mk(spec, depth, n, owned, default=default)
        d = dict(zip(g.coords, g.payloads))
        c2 = dict(case, mode="rangeShape", lo=lo, hi=hi, step=step)
        before = (tensor_snapshot(t2) if t2 else None, raw(g))
        ok, got = guarded(rec, part, c2, lambda: pairs(g.iterRangeShape(lo, hi, step)))
        if ok:
            same(got, [(c, d.get(c)) for c in range(lo, hi, step)], "iterRangeShape yields range(start, end, step)", c2)
            if (tensor_snapshot(t2) if t2 else None, raw(g)) != before:
                rec.violation(part, "iterRangeShape changed the tree", c2, "non-reference iteration never inserts", None, None)
        ok, got = guarded(rec, part, c2, lambda: pairs(g.iterRangeShapeRef(lo, hi, step)))
        if ok:
            visited = list(range(lo, hi, step))
            if [c for c, _ in got] != visited:
                rec.violation(part, "wrong coordinates", c2, "iterRangeShapeRef yields range(start, end, step)", [c for c, _ in got], visited)
            if sorted(set(d) | set(visited)) != g.coords:
                rec.violation(part, "reference iteration inserted the wrong coordinates", c2,
                              "reference variants insert exactly the visited absent coordinates", g.coords, sorted(set(d) | set(visited)))
            for c, p in got:
                if p is not g.payloads[g.coords.index(c)]:
                    rec.violation(part, "reference iteration did not deliver the stored payload", c2, "Ref variants deliver the stored payload", None, None)
    # default iteration follows the rank format
    t3, h = mk(spec, depth, n, owned, fmt="U", default=default)
    d = dict(zip(h.coords, h.payloads))
    ok, got = guarded(rec, part, dict(case, mode="formatU"), lambda: pairs(h))
    if ok:
        same(got, [(c, d.get(c)) for c in range(0, n)], "default iteration of an uncompressed rank visits every coordinate of the active range", dict(case, mode="formatU"))
    if (tensor_snapshot(t) if t else None, raw(f)) != snap0:
        rec.violation(part, "read-only traversals changed the tree", case, "non-reference traversals leave the tree as it was", None, None)


def check_lazy(rec, part, n, aspec, bspec):
    """Lazily produced fibers: repeatable traversal, materialise to equal eager fibers."""
    case = dict(n=n, a=_ser(aspec), b=_ser(bspec))
    a, b = build_fiber(aspec, 1, shape=n), build_fiber(bspec, 1, shape=n)
    for name, mkf in (("and", lambda: a & b), ("or", lambda: a | b), ("sub", lambda: a - b), ("xor", lambda: a ^ b),
                      ("prune", lambda: a.prune(lambda i, c, p: c % 2 == 0)),
                      ("project", lambda: a.project(lambda c: c + 5)),
                      ("project-rev", lambda: a.project(lambda c: 10 - c))):
        c2 = dict(case, lazy=name)
        ok, lz = guarded(rec, part, c2, mkf)
        if not ok:
            continue
        ok, seqs = guarded(rec, part, c2, lambda: [[(c, repr(unbox(p))) for c, p in lz] for _ in range(3)], "lazy fiber iterates")
        if not ok:
            continue
        if seqs[0] != seqs[1] or seqs[1] != seqs[2]:
            rec.violation(part, "repeated traversal of a lazy fiber differs", c2, "lazily produced fibers iterate repeatedly with identical results", seqs, None)
            continue
        ok, eager = guarded(rec, part, c2, lambda: Fiber.fromLazy(lz), "fromLazy materialises")
        if ok:
            got = [(c, repr(unbox(p))) for c, p in zip(eager.coords, eager.payloads)]
            if got != seqs[0]:
                rec.violation(part, "materialised fiber differs from the lazy traversal", c2, "lazy fibers materialise to equal eager fibers", got, seqs[0])


def check_project(rec, part, n, spec, sign, k, interval):
    case = dict(n=n, spec=_ser(spec), sign=sign, k=k, interval=interval)
    a = build_fiber(spec, 1, shape=n)
    fn = (lambda c: sign * c + k)
    occ = [(c, p) for c, p in zip(a.coords, a.payloads) if nonempty(p)]
    want = sorted(((fn(c), p) for c, p in occ), key=lambda x: x[0])
    if interval is not None:
        want = [(c, p) for c, p in want if interval[0] <= c < interval[1]]
    ok, got = guarded(rec, part, case, lambda: pairs(a.project(fn, interval=interval)), "projection does not raise")
    if not ok:
        return
    if [c for c, _ in got] != [c for c, _ in want]:
        rec.violation(part, "projection coordinates wrong", case, "projection delivers the transformed coordinates in ascending order within the interval", [c for c, _ in got], [c for c, _ in want])
        return
    for (c, p), (_, q) in zip(got, want):
        if p is not q:
            rec.violation(part, "projection payload is not the stored payload", case, "projection delivers the same payloads", None, None)
            return


def check_prune(rec, part, n, spec, keep):
    case = dict(n=n, spec=_ser(spec), keep=keep)
    a = build_fiber(spec, 1, shape=n)
    occ = [(c, p) for c, p in zip(a.coords, a.payloads) if nonempty(p)]
    want = [(c, p) for i, (c, p) in enumerate(occ) if keep[i % len(keep)]]
    ok, got = guarded(rec, part, case, lambda: pairs(a.prune(lambda i, c, p: keep[i % len(keep)])), "prune does not raise")
    if ok and ([c for c, _ in got] != [c for c, _ in want] or any(p is not q for (_, p), (_, q) in zip(got, want))):
        rec.violation(part, "prune wrong", case, "pruning delivers the selected elements with the same payloads in ascending order", [c for c, _ in got], [c for c, _ in want])


def run(tier, seed):
    rec = Recorder("C07", tier, seed, budget_s=100 if tier == "quick" else 900)
    rnd = random.Random(seed)
    n = 3 if tier == "quick" else 4
    for spec in specs1(n, vals=(0, 1)):
        for owned in (False, True):
            for default in (0, 1):
                rec.case("depth1", (spec_key(spec), owned, default), sample=dict(spec=_ser(spec), owned=owned, default=default))
                check_fiber(rec, "depth1", 1, n, spec, owned, default)
    for spec in specs(2, 2):
        if rec.out_of_time():
            break
        rec.case("depth2", spec_key(spec))
        check_fiber(rec, "depth2", 2, 2, spec, True)
    s1 = list(specs1(3, vals=(0, 1)))
    for a, b in itertools.product(s1, s1):
        rec.case("lazy", (spec_key(a), spec_key(b)))
        check_lazy(rec, "lazy", 3, a, b)
    for spec in specs1(4, vals=(0, 1)):
        for sign, k in ((1, 0), (1, 3), (2, 1), (-1, 6), (-1, 0), (-2, 9)):
            for interval in (None, (0, 4), (2, 5), (3, 3), (-6, 2), (0, 10)):
                rec.case("project", (spec_key(spec), sign, k, interval))
                check_project(rec, "project", 4, spec, sign, k, interval)
        for keep in ([True], [False], [True, False], [False, True, True]):
            rec.case("prune", (spec_key(spec), tuple(keep)))
            check_prune(rec, "prune", 4, spec, keep)
    # at scale: seeded random fibers far outside the enumerated scope, sampled ranges (bounds on and off stored coordinates)
    for _ in range(30 if tier == "quick" else 400):
        spec, nn = scale_spec(rnd, vals=(0, 1), count=rnd.choice([12, 30, 70, 120]))
        cs = sorted(spec)

        def bound():
            return rnd.choice([None, rnd.choice(cs), rnd.choice(cs) + 1, rnd.randrange(nn + 1)])
        ranges = [(bound(), bound()) for _ in range(6)] + [(None, None)]
        actives = [None] + [tuple(sorted((rnd.randrange(nn), rnd.randrange(nn + 1)))) for _ in range(2)]
        shape_ranges = []
        for _ in range(3):
            lo = rnd.randrange(nn)
            shape_ranges.append((lo, min(nn, lo + rnd.randint(0, 40)), rnd.choice([1, 1, 2, 3])))
        owned = rnd.random() < 0.5
        rec.case("scale", (spec_key(spec), owned, repr(ranges)))
        check_fiber(rec, "scale", 1, nn, spec, owned, rnd.choice([0, 0, 1]), ranges=ranges, actives=actives, shape_ranges=shape_ranges)
    return rec.result("every fiber over %d coordinates with payloads {absent,0,1} (free-standing and owned, leaf default 0 and 1): every range/active "
                      "range/step, every valid start_pos, both rank formats, Ref and non-Ref forms; every depth-2 tree over 2 coordinates; all pairs for "
                      "lazily produced fibers (and/or/xor/sub/prune/project) traversed three times and materialised; all affine projections "
                      "+-c+k with intervals; pruning patterns; plus seeded random fibers at scale (12-120 elements) with sampled ranges" % n)


def replay(case):
    rec = Recorder("C07", "replay", 0)
    if "lazy" in case:
        check_lazy(rec, "replay", case["n"], _deser(case["a"]), _deser(case["b"]))
    elif "sign" in case:
        check_project(rec, "replay", case["n"], _deser(case["spec"]), case["sign"], case["k"], tuple(case["interval"]) if case["interval"] else None)
    elif "keep" in case:
        check_prune(rec, "replay", case["n"], _deser(case["spec"]), case["keep"])
    else:
        kw = {}
        if case.get("ranges") is not None:
            kw = dict(ranges=[tuple(r) for r in case["ranges"]], actives=[tuple(a) if a else None for a in case["actives"]],
                      shape_ranges=[tuple(r) for r in case["shape_ranges"]])
        check_fiber(rec, "replay", case["depth"], case["n"], _deser(case["spec"]), case["owned"], case.get("default", 0), **kw)
    if rec.violations:
        v = rec.violations[0]
        return False, "REPRODUCED: %s: %s (observed %s, expected %s)" % (v["what"], v["clause"], v["observed"], v["expected"])
    return True, "not reproduced"


if __name__ == "__main__":
    raise SystemExit(main(__import__("C07")))
