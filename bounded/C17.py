"""Bounded stand-in for C17: buffer traffic models against policy oracles computed independently from the traces."""
import itertools
import os
import random
import tempfile

from common import Recorder, guarded, main

from fibertree import Tensor, Fiber
from fibertree.model import Format, Traffic

ELEM_BITS = 32


def make_format(shape, layout="contiguous"):
    t = Tensor.fromFiber(["K"], Fiber([0], [1]), shape=[shape], name="A")
    return {"A": Format(t, {"K": {"format": "C", "cbits": ELEM_BITS, "pbits": ELEM_BITS, "layout": layout}})}


def write_trace(path, rows):
    """rows: [(m_pos, k_pos, m, k, fiber_pos)] in stamp order."""
    with open(path, "w") as f:
        f.write("M_pos,K_pos,M,K,fiber_pos\n")
        for r in rows:
            f.write(",".join(str(x) for x in r) + "\n")


def trace_rows(accesses):
    """accesses: [(m, k_pos_in_iteration, pos)] -> rows; stamps are (m, index within m)."""
    return [(m, j, m, pos, pos) for (m, j, pos) in accesses]


# ------------------------------------------------------------------ oracles
def buffet_oracle(events, epl, evict_on, shape):
    """events: merged [(stamp, is_write, pos)] in stamp order.  One fill per distinct (line, window) whose first access is a
    read; one write-back per distinct (line, window) containing a write (staging-area writes, pos >= shape, never written back)."""
    first = {}
    wrote = set()
    for stamp, is_write, pos in events:
        window = () if evict_on == "root" else (stamp[0],)
        key = (pos // epl, window)
        if key not in first:
            first[key] = is_write
        if is_write and pos < shape:
            wrote.add(key)
    fills = sum(1 for k, w in first.items() if not w)
    return fills, len(wrote)


def cache_oracle(lines, cap_lines):
    """Minimum number of misses of any replacement policy with bypass (exhaustive search with memoisation)."""
    from functools import lru_cache
    n = len(lines)

    @lru_cache(maxsize=None)
    def go(i, cached):
        if i == n:
            return 0
        ln = lines[i]
        if ln in cached:
            return go(i + 1, cached)
        best = 1 + go(i + 1, cached)                      # bypass
        if cap_lines > 0:
            if len(cached) < cap_lines:
                best = min(best, 1 + go(i + 1, tuple(sorted(cached + (ln,)))))
            else:
                for v in cached:
                    best = min(best, 1 + go(i + 1, tuple(sorted(tuple(x for x in cached if x != v) + (ln,)))))
        return best
    return go(0, ())


def merged_events(reads, writes):
    """Stable merge by iteration stamp (reads first on ties, as the combined trace does)."""
    ev = [((m, j), False, pos) for (m, j, pos) in reads] + [((m, j), True, pos) for (m, j, pos) in writes]
    ev.sort(key=lambda e: (e[0], e[1]))
    return ev


def run_model(kind, reads, writes, evict_on, capacity, line_sz, shape):
    d = tempfile.mkdtemp(prefix="c17-")
    try:
        fns = {}
        if reads is not None:
            rp = os.path.join(d, "read.csv")
            write_trace(rp, trace_rows(reads))
            fns[("A", "K", "payload", "read")] = rp
        if writes:
            wp = os.path.join(d, "write.csv")
            write_trace(wp, trace_rows(writes))
            fns[("A", "K", "payload", "write")] = wp
        bindings = [{"tensor": "A", "rank": "K", "type": "payload", "evict-on": evict_on}]
        fn = Traffic.buffetTraffic if kind == "buffet" else Traffic.cacheTraffic
        before = sorted(os.listdir(d))
        bits, overflows = fn(bindings, make_format(shape), fns, capacity, line_sz)
        after = sorted(os.listdir(d))
        return bits, overflows, before == after
    finally:
        for f in os.listdir(d):
            os.remove(os.path.join(d, f))
        os.rmdir(d)


def check_buffet(rec, part, reads, writes, evict_on, line_elems, shape):
    case = dict(model="buffet", reads=reads, writes=writes, evict_on=evict_on, line_elems=line_elems, shape=shape)
    line_sz = line_elems * ELEM_BITS
    ok, r = guarded(rec, part, case, lambda: run_model("buffet", reads, writes, evict_on, 10 ** 6, line_sz, shape), "buffet model runs")
    if not ok:
        return
    bits, overflows, clean = r
    fills, wbs = buffet_oracle(merged_events(reads, writes), line_elems, evict_on, shape)
    got_r = bits["A"].get("read", 0)
    got_w = bits["A"].get("write", 0)
    if got_r != fills * line_sz:
        rec.violation(part, "buffet read traffic wrong", case,
                      "the buffet charges one line fill for every distinct (line, eviction-window) pair whose first access is a read", got_r, fills * line_sz)
    if writes and got_w != wbs * line_sz:
        rec.violation(part, "buffet write traffic wrong", case,
                      "the buffet charges one write-back for every (line, window) pair containing a write (staging-area writes never)", got_w, wbs * line_sz)
    if not clean:
        rec.violation(part, "temporary files left behind", case, "all temporary files are removed", None, None)


def check_cache(rec, part, reads, line_elems, shape):
    case = dict(model="cache", reads=reads, line_elems=line_elems, shape=shape)
    line_sz = line_elems * ELEM_BITS
    lines = [pos // line_elems for (_, _, pos) in reads]
    distinct = len(set(lines))
    prev = None
    for cap_half_lines in range(0, 2 * (distinct + 1) + 1):
        capacity = cap_half_lines * line_sz // 2            # also capacities that are not a whole number of lines
        c2 = dict(case, capacity=capacity)
        ok, r = guarded(rec, part, c2, lambda: run_model("cache", reads, None, "root", capacity, line_sz, shape), "cache model runs")
        if not ok:
            return
        bits, overflows, clean = r
        got = bits["A"].get("read", 0)
        want = cache_oracle(tuple(lines), capacity // line_sz) * line_sz
        if got != want:
            rec.violation(part, "cache fills differ from the optimal policy", c2,
                          "the cache model charges exactly as many line fills as an optimal (furthest-next-use, bypass-allowed) policy at the given capacity", got, want)
            return
        if not (distinct * line_sz <= got <= len(lines) * line_sz):
            rec.violation(part, "cache traffic outside its bounds", c2, "traffic is never below one fill per distinct line and never above one per access", got, None)
        if prev is not None and got > prev:
            rec.violation(part, "cache traffic increased with capacity", c2, "cache traffic never increases with capacity", got, prev)
        prev = got
        if not clean:
            rec.violation(part, "temporary files left behind", c2, "all temporary files are removed", None, None)


def check_filter_combine(rec, part, rows_a, rows_f):
    case = dict(model="filter", a=rows_a, f=rows_f)
    d = tempfile.mkdtemp(prefix="c17f-")
    try:
        pa, pf, po = (os.path.join(d, x) for x in ("a.csv", "f.csv", "o.csv"))
        write_trace(pa, trace_rows(rows_a))
        with open(pf, "w") as f:                            # the filter trace is one loop level deeper (M, K, N)
            f.write("M_pos,K_pos,N_pos,M,K,N,fiber_pos\n")
            for (m, j, pos) in rows_f:
                f.write("%d,%d,0,%d,%d,0,0\n" % (m, j, m, pos))
        ok, _ = guarded(rec, part, case, lambda: Traffic.filterTrace(pa, pf, po), "filterTrace runs")
        if ok:
            got = [l.strip() for l in open(po)][1:]
            keep = {(m, pos) for (m, j, pos) in rows_f}
            want = ["%d,%d,%d,%d,%d" % (m, j, m, pos, pos) for (m, j, pos) in rows_a if (m, pos) in keep]
            if got != want:
                rec.violation(part, "filterTrace kept the wrong rows", case, "trace filtering keeps exactly the rows whose point occurs in the filter trace", got, want)
    finally:
        for f in os.listdir(d):
            os.remove(os.path.join(d, f))
        os.rmdir(d)


def access_patterns(n_lines_elems, max_len, rnd, count):
    """Well-formed traces over loop ranks (M, K): stamps strictly increasing."""
    out = []
    for _ in range(count):
        rows = []
        for m in range(rnd.randint(1, 3)):
            k = rnd.randint(0, 3)
            poss = [rnd.randrange(n_lines_elems) for _ in range(k)]
            for j, pos in enumerate(poss):
                rows.append((m, j, pos))
        if rows and len(rows) <= max_len:
            out.append(rows)
    return out


def run(tier, seed):
    rec = Recorder("C17", tier, seed, budget_s=100 if tier == "quick" else 900)
    rnd = random.Random(seed)
    max_len = 6 if tier == "quick" else 8
    pats = access_patterns(4, max_len, rnd, 120 if tier == "quick" else 1500)
    for reads in pats:
        for line_elems in (1, 2):
            for evict_on in ("root", "M"):
                if rec.out_of_time():
                    break
                rec.case("buffet-read", (repr(reads), line_elems, evict_on), sample=dict(reads=reads, evict_on=evict_on))
                check_buffet(rec, "buffet-read", reads, [], evict_on, line_elems, 4)
                # a write trace: a subset of the stamps, some addressed beyond the shape (staging area)
                writes = [(m, j, pos if rnd.random() < 0.8 else 4 + pos) for (m, j, pos) in reads if rnd.random() < 0.5]
                rec.case("buffet-read-write", (repr(reads), repr(writes), line_elems, evict_on))
                check_buffet(rec, "buffet-read-write", reads, writes, evict_on, line_elems, 4)
    for reads in pats[:60 if tier == "quick" else 600]:
        for line_elems in (1, 2):
            if rec.out_of_time():
                break
            rec.case("cache", (repr(reads), line_elems))
            check_cache(rec, "cache", reads, line_elems, 4)
    # classic reuse patterns (A B C A B A B C ...)
    for seq in ([0, 1, 2, 0, 1, 0, 1, 2], [0, 1, 0, 2, 0, 3, 0], [0, 1, 2, 3, 0, 1, 2, 3], [0, 0, 1, 1, 0], [3, 2, 1, 0, 1, 2, 3]):
        reads = [(0, j, p) for j, p in enumerate(seq)]
        rec.case("cache", ("classic", tuple(seq)))
        check_cache(rec, "cache", reads, 1, 4)
    for _ in range(150 if tier == "quick" else 1500):
        # a traversal touches each point of a fiber once, in coordinate order; the deeper filter trace repeats points
        a = []
        for m in range(rnd.randint(1, 3)):
            for j, pos in enumerate(sorted(rnd.sample(range(5), rnd.randint(0, 4)))):
                a.append((m, j, pos))
        f = [r for r in a if rnd.random() < 0.6 for _ in range(rnd.randint(1, 2))]
        if rnd.random() < 0.3:
            f.append((rnd.randint(0, 3), 9, rnd.randrange(5)))
            f.sort(key=lambda r: (r[0], r[2]))
        rec.case("filter", (repr(a), repr(f)))
        check_filter_combine(rec, "filter", a, f)
    # at scale: long traces (up to 60 rows over 16 positions, 1-6 outer iterations); the cache oracle stays exhaustive, so few distinct lines there
    for _ in range(30 if tier == "quick" else 400):
        rows = []
        for m in range(rnd.randint(1, 6)):
            for j in range(rnd.randint(0, 10)):
                rows.append((m, j, rnd.randrange(16)))
        if not rows:
            continue
        line_elems = rnd.choice([1, 2, 4])
        evict_on = rnd.choice(["root", "M"])
        writes = [(m, j, pos if rnd.random() < 0.8 else 16 + pos) for (m, j, pos) in rows if rnd.random() < 0.4]
        rec.case("scale", ("buffet", repr(rows), repr(writes), line_elems, evict_on))
        check_buffet(rec, "scale", rows, writes if rnd.random() < 0.6 else [], evict_on, line_elems, 16)
        seq = [rnd.choice([0, 5, 9]) for _q in range(rnd.randint(8, 14))]
        reads = [(0, j, p) for j, p in enumerate(seq)]
        rec.case("scale", ("cache", tuple(seq)))
        check_cache(rec, "scale", reads, 1, 16)
        # filter at scale: positions with one and two digits, several outer iterations
        a = []
        for m in range(rnd.randint(1, 5)):
            for j, pos in enumerate(sorted(rnd.sample(range(24), rnd.randint(0, 14)))):
                a.append((m, j, pos))
        f = [r for r in a if rnd.random() < 0.5 for _q in range(rnd.randint(1, 2))]
        rec.case("scale", ("filter", repr(a), repr(f)))
        check_filter_combine(rec, "scale", a, f)
    return rec.result("seeded well-formed read (and read+write) traces over loop ranks (M, K) with <= %d rows over <= 4 positions; bindings evict-on root and "
                      "evict-on M; lines of 1 and 2 elements; buffet against a count of distinct (line, window) pairs by first-access kind and by contained "
                      "writes (staging-area writes excluded); cache against an exhaustive search over all replacement/bypass decisions at every capacity "
                      "from 0 to all lines in half-line steps (bounds and monotonicity too); filterTrace against a point-membership filter; directory "
                      "listings compared before/after; plus seeded random traces at scale (up to 60 rows over 16 positions; cache: 8-14 rows over 3 lines)" % max_len)


def replay(case):
    rec = Recorder("C17", "replay", 0)
    tup = lambda rows: [tuple(r) for r in rows]
    if case["model"] == "buffet":
        check_buffet(rec, "replay", tup(case["reads"]), tup(case["writes"]), case["evict_on"], case["line_elems"], case["shape"])
    elif case["model"] == "cache":
        check_cache(rec, "replay", tup(case["reads"]), case["line_elems"], case["shape"])
    else:
        check_filter_combine(rec, "replay", tup(case["a"]), tup(case["f"]))
    if rec.violations:
        v = rec.violations[0]
        return False, "REPRODUCED: %s: %s (observed %s, expected %s)" % (v["what"], v["clause"], v["observed"], v["expected"])
    return True, "not reproduced"


if __name__ == "__main__":
    raise SystemExit(main(__import__("C17")))
