"""Bounded stand-in / CPython cross-check for C11: operators on boxes, elements and fibers."""
import itertools
import operator

from common import Recorder, guarded, main

from fibertree import Fiber, Payload, CoordPayload

BIN = {"+": operator.add, "-": operator.sub, "*": operator.mul, "/": operator.truediv}
LOGIC = {"&": operator.and_, "|": operator.or_, "<<": operator.lshift}
CMP = {"==": operator.eq, "!=": operator.ne, "<": operator.lt, "<=": operator.le, ">": operator.gt, ">=": operator.ge}
IOPS = {"+=": operator.iadd, "-=": operator.isub, "*=": operator.imul, "/=": operator.itruediv, "<<=": operator.ilshift}
IREF = {"+=": operator.add, "-=": operator.sub, "*=": operator.mul, "/=": operator.truediv, "<<=": lambda a, b: b}
# reflected forms the classes define (scalar on the left)
RBIN = ["+", "-", "*", "/"]

KINDS = ["box", "elem", "scalar"]


def mk(kind, v):
    if kind == "box":
        return Payload(v)
    if kind == "elem":
        return CoordPayload(7, v)
    return v


def raw(x):
    if isinstance(x, CoordPayload):
        x = x.payload
    if isinstance(x, Payload):
        x = x.value
    return x


def check_scalar_forms(rec, values):
    for (ka, kb) in itertools.product(KINDS, KINDS):
        if ka == "scalar" and kb == "scalar":
            continue
        for a, b in itertools.product(values, values):
            ops = dict(BIN)
            if isinstance(a, int) and isinstance(b, int) and 0 <= b < 8:
                ops.update(LOGIC)
            for name, fn in ops.items():
                if name == "/" and b == 0:
                    continue
                if ka == "scalar" and name not in RBIN:
                    continue          # no reflected logical operators are defined: TypeError, loud
                if ka == "elem" and name in LOGIC:
                    continue          # CoordPayload defines no logical operators
                if ka == "box" and kb == "elem" and name in LOGIC:
                    continue
                case = dict(form="bin", op=name, ka=ka, kb=kb, a=a, b=b)
                rec.case("binary", (name, ka, kb, a, b), sample=case)
                x, y = mk(ka, a), mk(kb, b)
                ok, r = guarded(rec, "binary", case, lambda: fn(x, y), "operator defined for this operand pair")
                if not ok:
                    continue
                exp = fn(a, b)
                if raw(r) != exp or type(raw(r)) is not type(exp):
                    rec.violation("binary", "wrong value", case, "result == op(values)", raw(r), exp)
                if isinstance(r, Payload) and isinstance(r.value, Payload):
                    rec.violation("binary", "doubly boxed", case, "result singly boxed", r, None)
                if raw(x) != a or raw(y) != b:
                    rec.violation("binary", "operand changed", case, "operands untouched", (raw(x), raw(y)), (a, b))
            for name, fn in CMP.items():
                if ka == "scalar" and kb != "scalar" and name in ("==", "!=") and False:
                    continue
                case = dict(form="cmp", op=name, ka=ka, kb=kb, a=a, b=b)
                rec.case("compare", (name, ka, kb, a, b), sample=case)
                x, y = mk(ka, a), mk(kb, b)
                ok, r = guarded(rec, "compare", case, lambda: fn(x, y), "comparison defined")
                if ok and (r is not fn(a, b)):
                    rec.violation("compare", "wrong truth value", case, "result is the raw bool of the comparison on values", r, fn(a, b))
            if ka != "scalar":
                for name, fn in IOPS.items():
                    if name == "/=" and b == 0:
                        continue
                    if name == "<<=" and ka == "box" and kb == "elem":
                        continue      # not one of the statement's operand kinds (a box is assigned a box or a scalar)
                    case = dict(form="inplace", op=name, ka=ka, kb=kb, a=a, b=b)
                    rec.case("inplace", (name, ka, kb, a, b), sample=case)
                    x, y = mk(ka, a), mk(kb, b)
                    box = x.payload if ka == "elem" else x
                    ok, r = guarded(rec, "inplace", case, lambda: fn(x, y), "in-place operator defined")
                    if not ok:
                        continue
                    exp = IREF[name](a, b)
                    if r is not x:
                        rec.violation("inplace", "result is not the same object", case, "result is self", type(r).__name__, "self")
                    if box.value != exp or type(box.value) is not type(exp):
                        rec.violation("inplace", "box not updated", case, "same box holds op(values)", box.value, exp)
                    if ka == "elem" and x.payload is not box:
                        rec.violation("inplace", "element re-boxed", case, "element keeps its payload box", None, None)
                    if raw(y) != b:
                        rec.violation("inplace", "right operand changed", case, "other untouched", raw(y), b)


def dense(f, shape):
    out = [0] * shape
    for c, p in zip(f.coords, f.payloads):
        out[c] = p.value if isinstance(p, Payload) else p
    return out


def fibers(n, vals):
    """All fibers over coordinates 0..n-1 with payloads from vals (None = absent); explicit zeros included."""
    for combo in itertools.product([None] + list(vals), repeat=n):
        cs = [i for i, v in enumerate(combo) if v is not None]
        ps = [v for v in combo if v is not None]
        yield cs, ps


def check_fiber_forms(rec, n, vals, scalars):
    fl = list(fibers(n, vals))
    for (ca, pa), (cb, pb) in itertools.product(fl, fl):
        if rec.out_of_time():
            return
        for op in ("+", "*"):
            case = dict(form="fiber", op=op, a=[ca, pa], b=[cb, pb], n=n)
            rec.case("fiber-fiber", (op, tuple(ca), tuple(pa), tuple(cb), tuple(pb)),
                     nontrivial=bool(ca or cb), sample=case)
            a, b = Fiber(ca, pa, shape=n), Fiber(cb, pb, shape=n)
            da, db = dense(a, n), dense(b, n)
            exp = [x + y for x, y in zip(da, db)] if op == "+" else [x * y for x, y in zip(da, db)]
            ok, r = guarded(rec, "fiber-fiber", case, lambda: (a + b) if op == "+" else (a * b))
            if not ok:
                continue
            if dense(r, n) != exp:
                rec.violation("fiber-fiber", "wrong content", case, "content(a op b) == pointwise op", dense(r, n), exp)
            if dense(a, n) != da or dense(b, n) != db or a.coords != ca or b.coords != cb:
                rec.violation("fiber-fiber", "operand changed", case, "operands untouched", None, None)
            # in-place agreement
            a2, b2 = Fiber(ca, pa, shape=n), Fiber(cb, pb, shape=n)
            ok, r2 = guarded(rec, "fiber-fiber", dict(case, inplace=True),
                             lambda: operator.iadd(a2, b2) if op == "+" else operator.imul(a2, b2))
            if ok:
                if r2 is not a2:
                    rec.violation("fiber-fiber", "in-place result is a new fiber", dict(case, inplace=True), "result is self")
                if dense(a2, n) != exp:
                    rec.violation("fiber-fiber", "in-place content differs", dict(case, inplace=True),
                                  "content after a op= b == content(a op b)", dense(a2, n), exp)
                if dense(b2, n) != db:
                    rec.violation("fiber-fiber", "in-place changed right operand", dict(case, inplace=True), "b untouched")
    for (ca, pa), s in itertools.product(fl, scalars):
        for op in ("+", "*"):
            for side in ("right", "left"):
                case = dict(form="fiber-scalar", op=op, a=[ca, pa], s=s, side=side, n=n)
                rec.case("fiber-scalar", (op, side, tuple(ca), tuple(pa), s), sample=case)
                a = Fiber(ca, pa, shape=n)
                da = dense(a, n)
                if op == "+":
                    exp = [x + s for x in da]
                else:
                    exp = [x * s for x in da]
                f = (lambda: a + s) if (op, side) == ("+", "right") else (lambda: s + a) if (op, side) == ("+", "left") \
                    else (lambda: a * s) if side == "right" else (lambda: s * a)
                ok, r = guarded(rec, "fiber-scalar", case, f)
                if not ok:
                    continue
                if dense(r, n) != exp:
                    rec.violation("fiber-scalar", "wrong content", case, "scalar form: add over the whole shape / scale stored", dense(r, n), exp)
                if dense(a, n) != da:
                    rec.violation("fiber-scalar", "operand changed", case, "operand untouched")
            for active in (None, (1, n - 1)):
                # a fiber whose active range is a strict sub-range of its shape (e.g. a partition of a split): the scalar forms
                # still range over the whole shape, and the in-place form must agree with the value-returning one
                a2 = Fiber(ca, pa, shape=n, active_range=active)
                a3 = Fiber(ca, pa, shape=n, active_range=active)
                case = dict(form="fiber-scalar", op=op, a=[ca, pa], s=s, side="inplace", n=n, active=active)
                ok, val = guarded(rec, "fiber-scalar", case, lambda: (a3 + s) if op == "+" else (a3 * s))
                if not ok:
                    continue
                exp = dense(val, n)
                ok, r2 = guarded(rec, "fiber-scalar", case, lambda: operator.iadd(a2, s) if op == "+" else operator.imul(a2, s))
                if ok and (r2 is not a2 or dense(a2, n) != exp):
                    rec.violation("fiber-scalar", "in-place scalar form differs", case, "content after a op= s == content(a op s)", dense(a2, n), exp)


def run(tier, seed):
    rec = Recorder("C11", tier, seed, budget_s=60 if tier == "quick" else 600)
    values = [0, 1, 2, 3, -2, 2.5, 0.0] if tier == "quick" else [0, 1, 2, 3, 5, -1, -2, 7, 2.5, -0.5, 0.0, 1e9]
    check_scalar_forms(rec, values)
    check_fiber_forms(rec, 3 if tier == "quick" else 4, [0, 1, 2], [0, 1, 3])
    return rec.result("exhaustive: every (operator, operand-kind pair, value pair) over the value set; every pair of fibers "
                      "over coordinates 0..n-1 with payloads from {absent,0,1,2}; non-trivial = distinct operand tuple")


def replay(case):
    rec = Recorder("C11", "replay", 0)
    if case.get("form") in ("fiber", "fiber-scalar"):
        n = case["n"]
        if case["form"] == "fiber":
            def only(it):
                return [tuple(map(list, x)) for x in it]
            # re-run exactly this pair
            fl = [(case["a"][0], case["a"][1])]
            import types
            g = globals()
            saved = g["fibers"]
            g["fibers"] = lambda n_, v_: iter([(case["a"][0], case["a"][1]), (case["b"][0], case["b"][1])])
            try:
                check_fiber_forms(rec, n, [], [])
            finally:
                g["fibers"] = saved
        else:
            g = globals()
            saved = g["fibers"]
            g["fibers"] = lambda n_, v_: iter([(case["a"][0], case["a"][1])])
            try:
                check_fiber_forms(rec, n, [], [case["s"]])
            finally:
                g["fibers"] = saved
    else:
        check_scalar_forms(rec, [case["a"], case["b"]])
    if rec.violations:
        return False, "REPRODUCED: " + "; ".join("%s: %s (observed %s, expected %s)" % (v["what"], v["clause"], v["observed"], v["expected"]) for v in rec.violations[:3])
    return True, "not reproduced"


if __name__ == "__main__":
    raise SystemExit(main(__import__("C11")))
