"""Shared pieces of the bounded stand-in (runs under /venv/bin/python against the real library).

Everything here observes the library only through documented public attributes (Fiber.coords,
Fiber.payloads, Payload.value, Rank.getFibers(), ...).  Oracles are in /verif/spec and import no fibertree code.
"""
import itertools
import json
import os
import random
import sys
import time
import traceback

sys.path.insert(0, os.environ.get("VERIF_REPO", "/repo"))
sys.path.insert(0, os.path.dirname(os.path.dirname(os.path.abspath(__file__))))


class Recorder:
    """Collects evaluations, distinct non-trivial cases, samples and violations of one bounded run."""

    def __init__(self, prop, tier, seed, budget_s=None):
        self.prop = prop
        self.tier = tier
        self.seed = seed
        self.evaluations = 0
        self.nontrivial = set()
        self.samples = []
        self.violations = []
        self.known = []
        self.t0 = time.time()
        self.budget_s = budget_s
        self.parts = {}
        self.exhaustive = True

    def out_of_time(self):
        if self.budget_s is not None and time.time() - self.t0 > self.budget_s:
            self.exhaustive = False
            return True
        return False

    def case(self, part, key, nontrivial=True, sample=None):
        self.evaluations += 1
        self.parts[part] = self.parts.get(part, 0) + 1
        if nontrivial:
            self.nontrivial.add((part, key))
        if sample is not None and len([s for s in self.samples if s.get("part") == part]) < 2:
            self.samples.append(dict(part=part, **sample))

    def violation(self, part, what, case, clause, observed=None, expected=None):
        """case: JSON-serialisable description sufficient for replay (see replay() of the property module)."""
        v = dict(part=part, what=what, case=case, clause=clause, observed=repr(observed)[:500], expected=repr(expected)[:500])
        # keep one witness per (part, clause): the smallest by JSON length
        for i, o in enumerate(self.violations):
            if o["part"] == part and o["clause"] == clause:
                if len(json.dumps(case, default=str)) < len(json.dumps(o["case"], default=str)):
                    self.violations[i] = v
                return
        self.violations.append(v)

    def result(self, rule):
        return dict(prop=self.prop, tier=self.tier, seed=self.seed, evaluations=self.evaluations,
                    distinct_nontrivial=len(self.nontrivial), rule=rule, samples=self.samples[:12],
                    violations=self.violations, parts=self.parts, exhaustive=self.exhaustive,
                    wall_s=round(time.time() - self.t0, 2))


def guarded(rec, part, case, fn, clause="no unexpected exception"):
    """Run fn(); an unexpected exception inside the library is reported as a violation of `clause`."""
    try:
        return True, fn()
    except SystemExit as e:
        rec.violation(part, "the library called exit(%s)" % e.code, case, clause, observed="SystemExit(%s)" % e.code)
    except AssertionError as e:
        rec.violation(part, "assertion inside the library", case, clause, observed="AssertionError: %s" % e)
    except Exception as e:
        rec.violation(part, "exception %s" % type(e).__name__, case, clause,
                      observed="%s: %s | %s" % (type(e).__name__, e, traceback.format_exc().splitlines()[-3:]))
    return False, None


def main(module):
    """CLI of a property module:  run <tier> <seed>  |  replay <json-file>"""
    mode = sys.argv[1]
    if mode == "run":
        tier, seed = sys.argv[2], int(sys.argv[3])
        random.seed(seed)
        real_stdout = sys.stdout
        sys.stdout = sys.stderr          # whatever the library prints must not mix with the JSON result
        try:
            res = module.run(tier, seed)
        finally:
            sys.stdout = real_stdout
        json.dump(res, sys.stdout, default=str)
        return 0
    if mode == "replay":
        case = json.load(open(sys.argv[2]))
        ok, msg = module.replay(case["case"] if "case" in case else case)
        print(msg)
        return 0 if ok else 1
    return 3
