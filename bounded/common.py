"""Shared pieces of the bounded stand-in (runs under /venv/bin/python against the real library).

Everything here observes the library only through documented public attributes (Fiber.coords,
Fiber.payloads, Payload.value, Rank.getFibers(), ...).  Oracles are in /verif/spec and import no fibertree code.
"""
import itertools
import json
import os
import random
import sys
import time
import traceback

sys.path.insert(0, os.environ.get("VERIF_REPO", "/repo"))
sys.path.insert(0, os.path.dirname(os.path.dirname(os.path.abspath(__file__))))


CASE_LIMIT_S = int(os.environ.get("VERIF_CASE_LIMIT", "90"))         # no single case of any harness takes more than a few seconds: a case that runs this long never returns


class CaseTimeout(BaseException):
    """Raised by the alarm when the library does not return from a case (BaseException: not swallowed by `except Exception`)."""


def _on_alarm(signum, frame):
    raise CaseTimeout()


CURRENT = [None]


class Recorder:
    """Collects evaluations, distinct non-trivial cases, samples and violations of one bounded run."""

    def __init__(self, prop, tier, seed, budget_s=None):
        self.prop = prop
        self.tier = tier
        self.seed = seed
        self.evaluations = 0
        self.nontrivial = set()
        self.samples = []
        self.violations = []
        self.known = []
        self.t0 = time.time()
        self.budget_s = budget_s
        self.parts = {}
        self.exhaustive = True
        self.current = None
        CURRENT[0] = self
        if tier != "replay":
            import signal
            signal.signal(signal.SIGALRM, _on_alarm)

    def out_of_time(self):
        if self.budget_s is not None and time.time() - self.t0 > self.budget_s:
            self.exhaustive = False
            return True
        return False

    def case(self, part, key, nontrivial=True, sample=None):
        self.current = (part, key, sample)
        if self.tier != "replay":
            import signal
            signal.setitimer(signal.ITIMER_REAL, CASE_LIMIT_S)      # re-armed at every case
        self.evaluations += 1
        self.parts[part] = self.parts.get(part, 0) + 1
        if nontrivial:
            self.nontrivial.add((part, key))
        if sample is not None and len([s for s in self.samples if s.get("part") == part]) < 2:
            self.samples.append(dict(part=part, **sample))

    def violation(self, part, what, case, clause, observed=None, expected=None):
        """case: JSON-serialisable description sufficient for replay (see replay() of the property module)."""
        v = dict(part=part, what=what, case=case, clause=clause, observed=repr(observed)[:500], expected=repr(expected)[:500])
        # keep one witness per (part, clause): the smallest by JSON length
        for i, o in enumerate(self.violations):
            if o["part"] == part and o["clause"] == clause:
                if len(json.dumps(case, default=str)) < len(json.dumps(o["case"], default=str)):
                    self.violations[i] = v
                return
        self.violations.append(v)

    def result(self, rule):
        return dict(prop=self.prop, tier=self.tier, seed=self.seed, evaluations=self.evaluations,
                    distinct_nontrivial=len(self.nontrivial), rule=rule, samples=self.samples[:12],
                    violations=self.violations, parts=self.parts, exhaustive=self.exhaustive,
                    wall_s=round(time.time() - self.t0, 2))


def guarded(rec, part, case, fn, clause="no unexpected exception"):
    """Run fn(); an unexpected exception inside the library is reported as a violation of `clause`."""
    try:
        return True, fn()
    except SystemExit as e:
        rec.violation(part, "the library called exit(%s)" % e.code, case, clause, observed="SystemExit(%s)" % e.code)
    except AssertionError as e:
        rec.violation(part, "assertion inside the library", case, clause, observed="AssertionError: %s" % e)
    except Exception as e:
        rec.violation(part, "exception %s" % type(e).__name__, case, clause,
                      observed="%s: %s | %s" % (type(e).__name__, e, traceback.format_exc().splitlines()[-3:]))
    return False, None


def main(module):
    """CLI of a property module:  run <tier> <seed>  |  replay <json-file>"""
    mode = sys.argv[1]
    if mode == "run":
        tier, seed = sys.argv[2], int(sys.argv[3])
        random.seed(seed)
        real_stdout = sys.stdout
        sys.stdout = sys.stderr          # whatever the library prints must not mix with the JSON result
        try:
            try:
                res = module.run(tier, seed)
            except CaseTimeout:
                # the library did not return from the case that was running: report it and stop (nothing after it can be run)
                rec = CURRENT[0]
                part, key, sample = rec.current if rec and rec.current else ("?", None, None)
                rec.exhaustive = False
                rec.violation(part, "the operation did not return within %d s" % CASE_LIMIT_S,
                              dict(timeout=True, part=part, key=repr(key)[:2000], sample=sample, tier=tier, seed=seed),
                              "every operation on a small tree returns (no endless loop)", observed="no return after %d s" % CASE_LIMIT_S)
                res = rec.result("INTERRUPTED by a case that did not return; cases before it were evaluated as usual")
            finally:
                import signal
                signal.setitimer(signal.ITIMER_REAL, 0)
        finally:
            sys.stdout = real_stdout
        json.dump(res, sys.stdout, default=str)
        return 0
    if mode == "replay":
        case = json.load(open(sys.argv[2]))
        inner = case["case"] if "case" in case else case
        if isinstance(inner, dict) and inner.get("timeout"):
            # a case that did not return: run the harness again with the same tier and seed and see whether it is interrupted again
            import subprocess
            p = subprocess.run([sys.executable, os.path.abspath(sys.argv[0]), "run", inner.get("tier", "quick"), str(inner.get("seed", 0))],
                               capture_output=True, text=True, env=os.environ.copy())
            again = "did not return" in p.stdout
            print("REPRODUCED: a case of part %s does not return" % inner.get("part") if again else "not reproduced")
            return 1 if again else 0
        ok, msg = module.replay(inner)
        print(msg)
        return 0 if ok else 1
    return 3
