"""Bounded stand-in for C03: point access against a dictionary oracle (CPython cross-check of the accessor contracts)."""
import itertools
import random

from common import Recorder, guarded, main
from gen import specs, build_tensor, spec_key, random_spec, build_fiber, scale_spec
from spec.oracle import raw, spec_content, tensor_snapshot, is_fiber, content, unbox

from fibertree import Fiber, Tensor, Payload


def _ser(spec):
    return {str(k): (_ser(v) if isinstance(v, dict) else v) for k, v in spec.items()}


def _deser(spec):
    return {int(k): (_deser(v) if isinstance(v, dict) else v) for k, v in spec.items()}


def legal_start_positions(f, c):
    """Every legal search-start shortcut for coordinate c in fiber f (plus None)."""
    out = [None, 0]
    for sp in range(1, len(f.coords)):
        if f.coords[sp] <= c:
            out.append(sp)
    return out


def run_history(rec, part, depth, n, spec, ops, default=0):
    """ops: [kind, point, arg, start_pos_choice]"""
    case = dict(depth=depth, n=n, spec=_ser(spec), ops=ops, default=default)
    t = build_tensor(spec, depth, n, default=default)
    model = dict(spec_content(spec, default))          # point -> value (non-default)
    root = t.getRoot()
    for i, (kind, point, arg, spc) in enumerate(ops):
        point = tuple(point)
        step = dict(case, step=i)
        if kind in ("read", "read_noalloc", "read_tensor"):
            before = tensor_snapshot(t)
            kw = {}
            if len(point) == 1 and spc is not None:
                sps = legal_start_positions(root, point[0])
                kw["start_pos"] = sps[spc % len(sps)]
            if kind == "read_noalloc":
                kw.update(allocate=False, default=7)
            ok, r = guarded(rec, part, step, (lambda: t.getPayload(*point, **kw)) if kind == "read_tensor" and "start_pos" not in kw
                            else (lambda: root.getPayload(*point, **kw)), "read does not raise")
            if not ok:
                return
            if tensor_snapshot(t) != before:
                rec.violation(part, "a read changed the tree or the rank lists", step, "reading never changes the tree", None, None)
                return
            if len(point) == depth:
                exp = model.get(point, 7 if kind == "read_noalloc" and not _path_exists(root, point) else default)
                if kind == "read_noalloc" and _path_exists(root, point):
                    exp = model.get(point, default)
                if unbox(r) != exp:
                    rec.violation(part, "read returned the wrong value", step, "read returns the last value written or the default", unbox(r), exp)
                    return
            else:
                if kind == "read_noalloc" and not _path_exists(root, point):
                    continue
                if not is_fiber(r):
                    rec.violation(part, "prefix read did not return a fiber", step, "prefix read returns the sub-fiber", r, None)
                    return
                exp = {p[len(point):]: v for p, v in model.items() if p[:len(point)] == point}
                if content(r, default) != exp:
                    rec.violation(part, "prefix read returned the wrong sub-tree", step, "prefix read holds exactly the values under the prefix", content(r, default), exp)
                    return
        elif kind in ("ref_set", "ref_add", "ref_none", "ref_mul", "ref_div", "ref_sub"):
            kw = {}
            if len(point) == 1 and spc is not None:
                sps = legal_start_positions(root, point[0])
                kw["start_pos"] = sps[spc % len(sps)]
            before_content = content(root, default)
            ok, r = guarded(rec, part, step, lambda: root.getPayloadRef(*point, **kw), "reference access does not raise")
            if not ok:
                return
            if len(point) == depth:
                if kind == "ref_set":
                    r <<= arg
                    model[point] = arg
                elif kind == "ref_add":
                    r += arg
                    model[point] = model.get(point, default) + arg
                elif kind == "ref_mul":
                    r *= arg
                    model[point] = model.get(point, default) * arg
                elif kind == "ref_div":
                    r /= arg
                    model[point] = model.get(point, default) / arg
                elif kind == "ref_sub":
                    r -= arg
                    model[point] = model.get(point, default) - arg
                if model.get(point) == default:
                    model.pop(point, None)
                # aliasing: the handle IS the stored payload
                again = root.getPayloadRef(*point)
                if again is not r:
                    rec.violation(part, "reference is not the stored payload", step, "the handle aliases the stored payload", None, None)
                    return
            now = content(root, default)
            if now != model:
                rec.violation(part, "reference access disturbed another point or lost the update", step,
                              "content == previous content overridden at exactly this point", now, dict(model))
                return
        elif kind in ("position", "positionref"):
            f = root
            c = point[0]
            sps = legal_start_positions(f, c)
            sp = sps[(spc or 0) % len(sps)]
            before = tensor_snapshot(t)
            had = c in f.coords
            ok, r = guarded(rec, part, step, (lambda: f.getPosition(c, start_pos=sp)) if kind == "position"
                            else (lambda: f.getPositionRef(c, start_pos=sp)), "position lookup does not raise")
            if not ok:
                return
            if kind == "position":
                if tensor_snapshot(t) != before:
                    rec.violation(part, "getPosition changed the tree", step, "position lookup never changes the tree", None, None)
                    return
                exp = f.coords.index(c) if had else None
                if r != exp:
                    rec.violation(part, "getPosition wrong", step, "position of the coordinate or None", r, exp)
                    return
            else:
                if c not in f.coords or f.coords[r] != c:
                    rec.violation(part, "getPositionRef wrong", step, "position of the (possibly created) coordinate", r, None)
                    return
                if content(root, default) != model:
                    rec.violation(part, "getPositionRef changed content", step, "creating a path disturbs no point", content(root, default), dict(model))
                    return
        if sorted(root.coords) != root.coords or len(set(root.coords)) != len(root.coords):
            rec.violation(part, "coordinates duplicated or unsorted after an access", step, "accessors keep the fiber ordered", root.coords, None)
            return


def _path_exists(f, point):
    for c in point:
        if not is_fiber(f) or c not in f.coords:
            return False
        f = f.payloads[f.coords.index(c)]
    return True


def op_universe(depth, n):
    pts = list(itertools.product(range(n), repeat=depth))
    ops = []
    for pt in pts:
        for spc in (None, 0, 1, 2):
            if depth > 1 and spc is not None:
                continue
            ops += [["read", list(pt), None, spc], ["ref_set", list(pt), 2, spc], ["ref_set", list(pt), 0, spc],
                    ["ref_add", list(pt), 1, spc], ["ref_none", list(pt), None, spc], ["ref_mul", list(pt), 0, spc],
                    ["ref_div", list(pt), 2, spc], ["ref_sub", list(pt), 1, spc]]
        ops += [["read_noalloc", list(pt), None, None], ["read_tensor", list(pt), None, None]]
    for d in range(1, depth):
        for pre in itertools.product(range(n), repeat=d):
            ops += [["read", list(pre), None, None], ["ref_none", list(pre), None, None], ["read_noalloc", list(pre), None, None]]
    for c in range(n):
        for spc in (0, 1, 2):
            ops += [["position", [c], None, spc], ["positionref", [c], None, spc]]
    return ops


def run(tier, seed):
    rec = Recorder("C03", tier, seed, budget_s=100 if tier == "quick" else 900)
    rnd = random.Random(seed)
    u1 = op_universe(1, 4)
    for spec in specs(1, 4, vals=(0, 1)):
        for op in u1:
            rec.case("depth1-single", (spec_key(spec), repr(op)), sample=dict(spec=_ser(spec), ops=[op]))
            run_history(rec, "depth1-single", 1, 4, spec, [op])
    u2 = op_universe(2, 2)
    for spec in specs(2, 2):
        for op in u2:
            rec.case("depth2-single", (spec_key(spec), repr(op)))
            run_history(rec, "depth2-single", 2, 2, spec, [op])
    unis = {1: op_universe(1, 4), 2: op_universe(2, 3), 3: op_universe(3, 2)}
    for _ in range(4000 if tier == "quick" else 60000):
        if rec.out_of_time():
            break
        depth = rnd.choice([1, 2, 2, 3])
        n = {1: 4, 2: 3, 3: 2}[depth]
        spec = random_spec(rnd, depth, n)
        default = rnd.choice([0, 0, 1])
        ops = [rnd.choice(unis[depth]) for _ in range(rnd.randint(2, 6 if tier == "quick" else 10))]
        rec.case("random-history", (depth, spec_key(spec), repr(ops), default))
        run_history(rec, "random-history", depth, n, spec, ops, default)
    # at scale: seeded random histories on fibers far outside the enumerated scope, start positions anywhere legal
    kinds = [("read", None), ("ref_set", 2), ("ref_set", 0), ("ref_add", 1), ("ref_none", None), ("ref_mul", 0), ("ref_div", 2), ("ref_sub", 1),
             ("read_noalloc", None), ("position", None), ("positionref", None)]
    for _ in range(60 if tier == "quick" else 800):
        spec, nn = scale_spec(rnd, vals=(0, 1, 2), count=rnd.choice([12, 30, 70]))
        cs = sorted(spec)
        ops = []
        for _j in range(rnd.randint(2, 6)):
            kind, arg = rnd.choice(kinds)
            c = rnd.choice([rnd.choice(cs), rnd.choice(cs) + 1, rnd.randrange(nn)])
            spc = rnd.choice([None, rnd.randrange(200), rnd.randrange(200)])
            if kind in ("position", "positionref") and spc is None:
                spc = 0
            if kind in ("read_noalloc",):
                spc = None
            ops.append([kind, [min(c, nn - 1)], arg, spc])
        default = rnd.choice([0, 0, 1])
        rec.case("scale", (spec_key(spec), repr(ops), default))
        run_history(rec, "scale", 1, nn, spec, ops, default)
    return rec.result("every fiber over 4 coordinates x every accessor op with every legal start_pos; every depth-2 tree over 2 coordinates x every op; "
                      "seeded random interleavings (length 2-6 quick / 2-10 thorough) at depth 1-3 with leaf default 0 or 1, against a dict oracle; "
                      "tree + rank-list snapshot compared around every read; plus seeded random histories at scale (12-70 elements, any legal start_pos)")


def replay(case):
    rec = Recorder("C03", "replay", 0)
    run_history(rec, "replay", case["depth"], case["n"], _deser(case["spec"]), case["ops"], case.get("default", 0))
    if rec.violations:
        v = rec.violations[0]
        return False, "REPRODUCED: %s: %s (observed %s, expected %s)" % (v["what"], v["clause"], v["observed"], v["expected"])
    return True, "not reproduced"


if __name__ == "__main__":
    raise SystemExit(main(__import__("C03")))
