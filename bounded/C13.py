"""Bounded stand-in for C13: conversions between representations are lossless."""
import copy
import itertools
import os
import random
import tempfile

from common import Recorder, guarded, main
from gen import specs, build_tensor, spec_key, random_spec
from spec.oracle import raw, is_fiber, is_box, unbox, content

from fibertree import Fiber, Tensor, Payload


def nests(dims, vals):
    """All rectangular nests with the given dimensions over vals."""
    if len(dims) == 1:
        for combo in itertools.product(vals, repeat=dims[0]):
            yield list(combo)
        return
    subs = list(nests(dims[1:], vals))
    for combo in itertools.product(range(len(subs)), repeat=dims[0]):
        yield [copy.deepcopy(subs[i]) for i in combo]


def nest_content(nest, default, prefix=()):
    out = {}
    for i, x in enumerate(nest):
        if isinstance(x, list):
            out.update(nest_content(x, default, prefix + (i,)))
        elif x != default:
            out[prefix + (i,)] = x
    return out


def dims_of(nest):
    d = []
    while isinstance(nest, list):
        d.append(len(nest))
        nest = nest[0]
    return d


def has_stored_default(f, default):
    for p in f.payloads:
        if is_fiber(p):
            if has_stored_default(p, default) or not p.payloads:
                return True
        elif unbox(p) == default:
            return True
    return False


def check_nest(rec, part, nest, default, as_tensor):
    dims = dims_of(nest)
    case = dict(nest=nest, default=default, as_tensor=as_tensor)
    want = nest_content(nest, default)
    if as_tensor:
        ids = ["R%d" % i for i in range(len(dims))]
        ok, t = guarded(rec, part, case, lambda: Tensor.fromUncompressed(ids, copy.deepcopy(nest), default=default), "fromUncompressed does not raise")
        if not ok:
            return
        f = t.getRoot()
        if t.getShape() != dims:
            rec.violation(part, "shape is not the nest's dimensions", case, "the nest's dimensions become the shape", t.getShape(), dims)
        if t.getRankIds() != ids:
            rec.violation(part, "rank ids lost", case, "rank ids as given", t.getRankIds(), ids)
    else:
        ok, f = guarded(rec, part, case, lambda: Fiber.fromUncompressed(copy.deepcopy(nest), default=default), "fromUncompressed does not raise")
        if not ok:
            return
        if want and f.getShape() != dims:
            rec.violation(part, "fiber shape is not the nest's dimensions", case, "the nest's dimensions become the shape", f.getShape(), dims)
    got = content(f, default)
    if got != want:
        rec.violation(part, "content differs from the nest's non-default entries", case, "content equals the nest's non-default entries", got, want)
        return
    if has_stored_default(f, default):
        rec.violation(part, "explicit default or empty sub-fiber stored", case, "no explicit defaults are stored", raw(f), None)
    ok, back = guarded(rec, part, case, lambda: f.uncompress(shape=dims), "uncompress does not raise")
    if ok and back != nest:
        rec.violation(part, "uncompress does not return the original nest", case, "uncompressing (to that shape) returns the original nest", back, nest)


def yaml_roundtrip(rec, part, t, case, check_name=True):
    d = tempfile.mkdtemp(prefix="c13-")
    path = os.path.join(d, "t.yaml")
    try:
        def rt():
            t.dump(path)
            try:
                return Tensor.fromYAMLfile(path)
            except SystemExit as e:
                raise RuntimeError("loader called exit(%s)" % e.code)
        ok, r = guarded(rec, part, case, rt, "YAML round trip of a tensor with tuple coordinates (flattened rank) loads again"
                        if part == "yaml-tuple-coordinates" else "dump + load does not raise")
        if not ok:
            return
        if r.getRankIds() != t.getRankIds():
            rec.violation(part, "rank ids differ after YAML round trip", case, "YAML round trip keeps the rank ids", r.getRankIds(), t.getRankIds())
        if r.getShape() != t.getShape():
            rec.violation(part, "shape differs after YAML round trip", case, "YAML round trip keeps the shape", r.getShape(), t.getShape())
        if check_name and r.getName() != t.getName():
            rec.violation(part, "name differs after YAML round trip", case, "YAML round trip keeps the name", r.getName(), t.getName())
        ra, rb = r.getRoot(), t.getRoot()
        if is_fiber(rb):
            if content(ra) != content(rb):
                rec.violation(part, "content differs after YAML round trip", case, "YAML round trip gives an equal object", content(ra), content(rb))
            else:
                ok2, eq = guarded(rec, part, case, lambda: r == t)
                if ok2 and eq is not True:
                    rec.violation(part, "reloaded tensor not equal", case, "YAML round trip gives an equal object (==)", eq, True)
        elif unbox(ra) != unbox(rb):
            rec.violation(part, "rank-0 value differs after YAML round trip", case, "YAML round trip (rank-0)", unbox(ra), unbox(rb))
    finally:
        for f in os.listdir(d):
            os.remove(os.path.join(d, f))
        os.rmdir(d)


def check_yaml_fiber(rec, part, f, case):
    d = tempfile.mkdtemp(prefix="c13f-")
    path = os.path.join(d, "f.yaml")
    try:
        def rt():
            f.dump(path)
            try:
                return Fiber.fromYAMLfile(path)
            except SystemExit as e:
                raise RuntimeError("loader called exit(%s)" % e.code)
        ok, r = guarded(rec, part, case, rt, "fiber dump + load does not raise")
        if ok and (list(r.coords) != list(f.coords) or raw(r) != raw(f)):
            rec.violation(part, "fiber differs after YAML round trip", case, "fiber YAML round trip gives an equal fiber", raw(r), raw(f))
        ok, r2 = guarded(rec, part, case, lambda: Fiber.dict2fiber(copy.deepcopy(f.fiber2dict())), "dict round trip does not raise")
        if ok and raw(r2) != raw(f):
            rec.violation(part, "fiber differs after dictionary round trip", case, "the dictionary form round-trips", raw(r2), raw(f))
    finally:
        for x in os.listdir(d):
            os.remove(os.path.join(d, x))
        os.rmdir(d)


def check_random(rec, part, shape, density, seed, default=0):
    case = dict(shape=shape, density=density, seed=seed)
    ids = ["R%d" % i for i in range(len(shape))]
    ok, ts = guarded(rec, part, case, lambda: (Tensor.fromRandom(ids, shape, density, 5, seed=seed), Tensor.fromRandom(ids, shape, density, 5, seed=seed)),
                     "fromRandom does not raise")
    if not ok:
        return
    a, b = ts
    ca, cb = content(a.getRoot()), content(b.getRoot())
    if ca != cb:
        rec.violation(part, "same seed gave different tensors", case, "random construction with a given seed is reproducible", ca, cb)
    for pt in ca:
        if any(not (0 <= c < s) for c, s in zip(pt, shape)):
            rec.violation(part, "coordinate outside the requested shape", case, "random construction stays inside the requested shape", pt, shape)
            break
    if all(dn == 1 for dn in density):
        stored = set()

        def walk(f, prefix):
            for c, p in zip(f.coords, f.payloads):
                if is_fiber(p):
                    walk(p, prefix + (c,))
                else:
                    stored.add(prefix + (c,))
        walk(a.getRoot(), ())
        full = set(itertools.product(*[range(s) for s in shape]))
        if stored != full:
            rec.violation(part, "density 1 did not fill the shape", case, "random construction fills the shape completely at density 1", len(stored), len(full))


def run(tier, seed):
    rec = Recorder("C13", tier, seed, budget_s=100 if tier == "quick" else 900)
    rnd = random.Random(seed)
    dimsets = [[1], [2], [3], [4], [1, 1], [1, 2], [2, 1], [2, 2], [2, 3], [3, 2], [1, 2, 2], [2, 1, 2], [2, 2, 1], [2, 2, 2]]
    for dims in dimsets:
        vals = (0, 1, 2) if len(dims) < 3 else (0, 1)
        for nest in nests(dims, vals):
            if rec.out_of_time():
                break
            for as_tensor in (False, True):
                rec.case("nests", (repr(nest), as_tensor), sample=dict(nest=nest))
                check_nest(rec, "nests", nest, 0, as_tensor)
            if len(dims) <= 2:
                rec.case("nests", (repr(nest), "default1"))
                check_nest(rec, "nests", nest, 1, True)
    for dims in ([4, 2, 3], [2, 3, 2, 2], [3, 1, 2], [2, 2, 2, 2]):
        for _ in range(60 if tier == "quick" else 1500):
            def rn(ds):
                if len(ds) == 1:
                    return [rnd.choice([0, 0, 1, 2.5, 3]) for _ in range(ds[0])]
                if rnd.random() < 0.3:
                    z = rn(ds[1:])
                    return [copy.deepcopy(_zero(z)) if rnd.random() < 0.7 else rn(ds[1:]) for _ in range(ds[0])]
                return [rn(ds[1:]) for _ in range(ds[0])]
            nest = rn(dims)
            rec.case("nests-deep", repr(nest))
            check_nest(rec, "nests-deep", nest, 0, rnd.random() < 0.5)
    # YAML / dictionary round trips: tensors from specs (explicit defaults, empty sub-fibers), rank-0, floats, transformed tensors
    for spec in list(specs(2, 2))[::1 if tier != "quick" else 3]:
        t = build_tensor(spec, 2, 2, name="nm")
        case = dict(kind="spec", spec={str(k): v for k, v in spec.items()})
        rec.case("yaml", spec_key(spec))
        yaml_roundtrip(rec, "yaml", t, case)
        check_yaml_fiber(rec, "yaml", copy.deepcopy(t.getRoot()).copy() if False else build_tensor(spec, 2, 2).getRoot(), case)
    for dims in ([3], [2, 2], [2, 2, 2]):
        for nest in list(nests(dims, (0, 1, 2.5)))[::7]:
            t = Tensor.fromUncompressed(["R%d" % i for i in range(len(dims))], nest, name="x")
            rec.case("yaml", repr(nest))
            yaml_roundtrip(rec, "yaml", t, dict(kind="nest", nest=nest))
    for v in (0, 3, 2.5):
        t0 = Tensor(rank_ids=[], name="scalar")
        r = t0.getRoot()
        r <<= v
        rec.case("yaml", ("rank0", v))
        yaml_roundtrip(rec, "yaml", t0, dict(kind="rank0", value=v))
    for spec in list(specs(2, 2))[5::9]:
        t = build_tensor(spec, 2, 2, name="tr")
        for kind, fn in (("split", lambda: t.splitUniform(2, depth=0)), ("swizzle", lambda: t.swizzleRanks(["N", "M"])),
                         ("flatten", lambda: t.flattenRanks(depth=0, levels=1))):
            ok, tt = guarded(rec, "yaml-transformed", dict(kind=kind), fn)
            if ok:
                rec.case("yaml-transformed", (kind, spec_key(spec)))
                part = "yaml-tuple-coordinates" if kind == "flatten" else "yaml-transformed"
                yaml_roundtrip(rec, part, tt, dict(kind=kind, spec={str(k): v for k, v in spec.items()}))
    for shape, dens in (([4], [1]), ([3, 2], [1, 1]), ([2, 2, 2], [1, 1, 1]), ([5], [0.5]), ([3, 3], [0.6, 0.4]), ([2, 3, 2], [0.9, 0.5, 0.5])):
        for sd in range(12 if tier == "quick" else 200):
            rec.case("random", (tuple(shape), tuple(dens), sd))
            check_random(rec, "random", shape, dens, sd)
    # at scale: long and wide nests
    for dims in ([40], [12, 15], [20, 3], [6, 5, 7], [30, 2, 2]):
        for _ in range(6 if tier == "quick" else 80):
            dens = rnd.choice([0.1, 0.5, 0.95])

            def rs(ds):
                if len(ds) == 1:
                    return [rnd.choice([1, 2, 2.5, 3]) if rnd.random() < dens else 0 for _q in range(ds[0])]
                return [rs(ds[1:]) for _q in range(ds[0])]
            nest = rs(dims)
            rec.case("scale", repr(nest))
            check_nest(rec, "scale", nest, 0, rnd.random() < 0.5)
            t = Tensor.fromUncompressed(["R%d" % i for i in range(len(dims))], nest, name="big")
            yaml_roundtrip(rec, "scale", t, dict(kind="nest", nest=nest))
    for shape, dens in (([40], [1]), ([12, 9], [1, 1]), ([30], [0.4]), ([8, 8, 4], [0.7, 0.5, 0.5])):
        for sd in range(4 if tier == "quick" else 50):
            rec.case("scale", ("random", tuple(shape), tuple(dens), sd))
            check_random(rec, "scale", shape, dens, sd)
    return rec.result("every rectangular nest for 14 dimension sets of depth 1-3 over {0,1,2} (depth 3: {0,1}), as fiber and as tensor, leaf default 0 and 1; "
                      "seeded random nests of depth 3-4 with float entries and all-default blocks; YAML files and dictionary forms for every other depth-2 "
                      "tree, nests with floats, rank-0 tensors, transformed (split/swizzled/flattened) tensors; fromRandom over seeds at density 1 and < 1; "
                      "plus seeded random nests at scale (dimensions up to 40) with YAML round trips")


def _zero(x):
    if isinstance(x, list):
        return [_zero(y) for y in x]
    return 0


def replay(case):
    rec = Recorder("C13", "replay", 0)
    if "nest" in case and "as_tensor" in case:
        check_nest(rec, "replay", case["nest"], case["default"], case["as_tensor"])
    elif "seed" in case:
        check_random(rec, "replay", case["shape"], case["density"], case["seed"])
    elif case.get("kind") == "nest":
        nest = case["nest"]
        yaml_roundtrip(rec, "replay", Tensor.fromUncompressed(["R%d" % i for i in range(len(dims_of(nest)))], nest, name="x"), case)
    elif case.get("kind") == "rank0":
        t0 = Tensor(rank_ids=[], name="scalar")
        r = t0.getRoot()
        r <<= case["value"]
        yaml_roundtrip(rec, "replay", t0, case)
    else:
        spec = {int(k): ({int(a): b for a, b in v.items()} if isinstance(v, dict) else v) for k, v in case.get("spec", {}).items()}
        t = build_tensor(spec, 2, 2, name="nm")
        kind = case.get("kind")
        if kind == "split":
            t = t.splitUniform(2, depth=0)
        elif kind == "swizzle":
            t = t.swizzleRanks(["N", "M"])
        elif kind == "flatten":
            t = t.flattenRanks(depth=0, levels=1)
        yaml_roundtrip(rec, "replay", t, case)
        check_yaml_fiber(rec, "replay", build_tensor(spec, 2, 2).getRoot(), case)
    if rec.violations:
        v = rec.violations[0]
        return False, "REPRODUCED: %s: %s (observed %s, expected %s)" % (v["what"], v["clause"], v["observed"], v["expected"])
    return True, "not reproduced"


if __name__ == "__main__":
    raise SystemExit(main(__import__("C13")))
