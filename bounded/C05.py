"""Bounded stand-in for C05: populate (z << a) with every loop body, modelled as a choice per offered reference."""
import itertools
import random

from common import Recorder, guarded, main
from gen import specs1, specs, build_fiber, build_tensor, spec_key, random_spec, scale_spec
from spec.oracle import raw, is_fiber, is_box, unbox, content, tensor_snapshot, wf_problems, rb_problems, spec_content

from fibertree import Fiber, Tensor, Payload

ACTIONS = ("assign", "acc", "leave", "reset", "set7")


def _ser(spec):
    return {str(k): (_ser(v) if isinstance(v, dict) else v) for k, v in spec.items()}


def _deser(spec):
    return {int(k): (_deser(v) if isinstance(v, dict) else v) for k, v in spec.items()}


def nonempty(p, default=0):
    if is_fiber(p):
        return any(nonempty(q, default) for q in p.payloads)
    return unbox(p) != default


def presented(f, default=0, fmt="C", rng=None):
    if fmt == "U":
        d = dict(zip(f.coords, f.payloads))
        return [(c, d.get(c)) for c in range(*rng)]
    return [(c, p) for c, p in zip(f.coords, f.payloads) if nonempty(p, default)]


def populate(rec, part, depth, n, zspec, aspec, body, zdefault=0, a_fmt="C"):
    """Runs the nested populate with body choices consumed in order; returns nothing, records violations."""
    case = dict(depth=depth, n=n, z=_ser(zspec), a=_ser(aspec), body=list(body), zdefault=zdefault, a_fmt=a_fmt)
    tz = build_tensor(zspec, depth, n, default=zdefault, name="Z")
    ta = build_tensor(aspec, depth, n, name="A")
    if a_fmt == "U":
        ta.setFormat(ta.getRankIds()[0], "U")
    a_before = tensor_snapshot(ta)
    model = dict(spec_content(zspec, zdefault))     # expected content of z
    raw_z_before = raw(tz.getRoot())
    offered_points = []
    idx = [0]
    failed = [False]

    def walk(zf, af, d, prefix):
        want = presented(af, 0, a_fmt if d == 0 else "C", (0, n))
        got_coords = []
        for c, (zr, ar) in zf << af:
            got_coords.append(c)
            exp_a = dict(want).get(c)
            if exp_a is not None and ar is not exp_a:
                rec.violation(part, "source payload is not a's stored payload", case, "each coordinate comes with a's payload", None, None)
                failed[0] = True
            if d == depth - 1:
                pt = prefix + (c,)
                cur = model.get(pt, zdefault)
                if not is_box(zr) or zr.value != cur:
                    rec.violation(part, "offered reference does not show z's current value", dict(case, point=list(pt)),
                                  "the reference shows z's current value at that coordinate (the default if absent)", unbox(zr), cur)
                    failed[0] = True
                act = body[idx[0] % len(body)]
                idx[0] += 1
                av = unbox(ar) if ar is not None else 0
                if act == "assign":
                    zr <<= av
                    model[pt] = av
                elif act == "acc":
                    zr += av
                    model[pt] = cur + av
                elif act == "reset":
                    zr <<= zdefault
                    model[pt] = zdefault
                elif act == "set7":
                    zr <<= 7
                    model[pt] = 7
                if model.get(pt) == zdefault:
                    model.pop(pt, None)
                offered_points.append(pt)
            else:
                if not is_fiber(zr):
                    rec.violation(part, "offered interior reference is not a fiber", case, "interior references are sub-fibers of z", zr, None)
                    failed[0] = True
                    continue
                act = body[idx[0] % len(body)]
                if act == "leave" and depth > 1 and (idx[0] % 3 == 2):
                    idx[0] += 1          # body ignores this sub-tree altogether
                    continue
                walk(zr, ar if ar is not None else Fiber(), d + 1, prefix + (c,))
            # z stays a well-formed member of its tensor throughout
            probs = wf_problems(tz.getRoot(), depth) + rb_problems(tz)
            if probs:
                rec.violation(part, "z not well-formed / rank lists wrong inside the loop", case, "z remains a well-formed member of its tensor throughout", probs, None)
                failed[0] = True
        if got_coords != [c for c, _ in want]:
            rec.violation(part, "wrong coordinates offered", dict(case, level=d, prefix=list(prefix)),
                          "populate yields exactly the coordinates a presents, in order", got_coords, [c for c, _ in want])
            failed[0] = True

    ok, _ = guarded(rec, part, case, lambda: walk(tz.getRoot(), ta.getRoot(), 0, ()), "populate does not raise")
    if not ok or failed[0]:
        return
    got = content(tz.getRoot(), zdefault)
    if got != model:
        rec.violation(part, "destination content wrong after populate", case,
                      "z's content == previous content overridden by what the body wrote", got, dict(model))
        return
    probs = wf_problems(tz.getRoot(), depth) + rb_problems(tz)
    if probs:
        rec.violation(part, "z not well-formed after the loop", case, "z remains a well-formed member of its tensor", probs, None)
    # coordinates left at the default leave no element and no sub-fiber behind; z outside a untouched
    stored = _stored_points(tz.getRoot(), depth)
    before_pts = _stored_points_raw(raw_z_before)
    touched_prefixes = {p[:k] for p in offered_points for k in range(1, depth + 1)}
    for pt in stored:
        if pt in before_pts:
            continue
        # newly stored path: must lead to a non-default leaf
        if len(pt) == depth and model.get(pt, zdefault) == zdefault:
            rec.violation(part, "an element left at the default stayed behind", dict(case, point=list(pt)),
                          "coordinates the body left at the default leave no element behind", None, None)
            return
        if len(pt) < depth and not any(q[:len(pt)] == pt for q in model):
            rec.violation(part, "an empty sub-fiber stayed behind", dict(case, prefix=list(pt)),
                          "coordinates the body left at the default leave no sub-fiber behind", None, None)
            return
    if tensor_snapshot(ta) != a_before:
        rec.violation(part, "source modified", case, "a is never modified", None, None)


def _stored_points(f, depth, prefix=()):
    out = set()
    for c, p in zip(f.coords, f.payloads):
        out.add(prefix + (c,))
        if is_fiber(p):
            out |= _stored_points(p, depth, prefix + (c,))
    return out


def _stored_points_raw(r, prefix=()):
    out = set()
    if r[0] == "F":
        for c, sub in r[1]:
            out.add(prefix + (c,))
            out |= _stored_points_raw(sub, prefix + (c,))
    return out


def run(tier, seed):
    rec = Recorder("C05", tier, seed, budget_s=100 if tier == "quick" else 900)
    rnd = random.Random(seed)
    n = 3
    s1 = list(specs1(n, vals=(0, 1, 2)))
    bodies1 = [list(b) for k in (1, 2, 3) for b in itertools.product(ACTIONS, repeat=k)]
    pairs = list(itertools.product(s1, s1))
    rnd.shuffle(pairs)
    for zspec, aspec in pairs[:500 if tier == "quick" else len(pairs)]:
        if rec.out_of_time():
            break
        k = sum(1 for v in aspec.values() if v != 0)
        for body in (bodies1 if k >= 1 else [["leave"]]):
            if len(body) > max(k, 1):
                continue
            for zdefault in (0, 1):
                rec.case("depth1", (spec_key(zspec), spec_key(aspec), tuple(body), zdefault),
                         nontrivial=k > 0, sample=dict(z=_ser(zspec), a=_ser(aspec), body=body))
                populate(rec, "depth1", 1, n, zspec, aspec, body, zdefault)
    # uncompressed source: the whole active range is offered
    for zspec, aspec in pairs[:150 if tier == "quick" else 2000]:
        for body in (["assign"], ["leave", "acc"], ["reset", "set7", "leave"]):
            rec.case("source-U", (spec_key(zspec), spec_key(aspec), tuple(body)))
            populate(rec, "source-U", 1, n, zspec, aspec, body, 0, "U")
    # depth 2 and 3: nested populate
    bodies = [["assign"], ["acc"], ["leave"], ["reset"], ["leave", "assign"], ["assign", "leave", "reset"], ["set7", "leave", "leave", "acc"],
              ["leave", "leave", "assign"], ["reset", "assign", "leave", "leave", "acc"]]
    s2 = list(specs(2, 2))
    p2 = list(itertools.product(s2, s2))
    rnd.shuffle(p2)
    for zspec, aspec in p2[:1200 if tier == "quick" else 20000]:
        if rec.out_of_time():
            break
        for body in bodies:
            rec.case("depth2", (spec_key(zspec), spec_key(aspec), tuple(body)))
            populate(rec, "depth2", 2, 2, zspec, aspec, body, 0)
    for _ in range(600 if tier == "quick" else 10000):
        if rec.out_of_time():
            break
        zspec, aspec = random_spec(rnd, 3, 2), random_spec(rnd, 3, 2)
        body = [rnd.choice(ACTIONS) for _ in range(rnd.randint(1, 5))]
        rec.case("depth3", (spec_key(zspec), spec_key(aspec), tuple(body)))
        populate(rec, "depth3", 3, 2, zspec, aspec, body, 0)
    for _ in range(600 if tier == "quick" else 10000):
        if rec.out_of_time():
            break
        zspec, aspec = random_spec(rnd, 2, 4), random_spec(rnd, 2, 4)
        body = [rnd.choice(ACTIONS) for _ in range(rnd.randint(1, 6))]
        zd = rnd.choice([0, 0, 1])
        rec.case("depth2-wide", (spec_key(zspec), spec_key(aspec), tuple(body), zd))
        populate(rec, "depth2-wide", 2, 4, zspec, aspec, body, zd)
    # at scale: seeded random pairs far outside the enumerated scope
    for _ in range(80 if tier == "quick" else 1000):
        zspec, nz = scale_spec(rnd)
        aspec, na = scale_spec(rnd, vals=(1, 2), count=rnd.choice([2, 3, 5, 12, 40]))    # sparse sources jump far ahead in z
        if rnd.random() < 0.5:
            aspec.update({c: 1 for c in rnd.sample(sorted(zspec), len(zspec) // 2)})
        nn = max(nz, na, max(aspec) + 1)
        body = [rnd.choice(ACTIONS) for _ in range(rnd.randint(1, 7))]
        zd = rnd.choice([0, 0, 1])
        rec.case("scale", (spec_key(zspec), spec_key(aspec), tuple(body), zd))
        populate(rec, "scale", 1, nn, zspec, aspec, body, zd)
    return rec.result("destination x source pairs over 3 coordinates with payloads {absent,0,1,2} x every body (assign/accumulate/leave/reset/set per "
                      "offered reference, all sequences up to the number of offered references) x destination default {0,1}; uncompressed sources; "
                      "nested populate over depth-2 pairs (2 coordinates, incl. empty sub-fibers) x 9 body patterns and seeded random depth-2/3 pairs; "
                      "WF and rank lists checked at every yield; plus seeded random depth-1 pairs at scale (10-80 elements, coordinates to 700)")


def replay(case):
    rec = Recorder("C05", "replay", 0)
    populate(rec, "replay", case["depth"], case["n"], _deser(case["z"]), _deser(case["a"]), case["body"], case.get("zdefault", 0), case.get("a_fmt", "C"))
    if rec.violations:
        v = rec.violations[0]
        return False, "REPRODUCED: %s: %s (observed %s, expected %s)" % (v["what"], v["clause"], v["observed"], v["expected"])
    return True, "not reproduced"


if __name__ == "__main__":
    raise SystemExit(main(__import__("C05")))
