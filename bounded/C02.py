"""Bounded stand-in for C02: rank bookkeeping mirrors the tree after every step, for tensors from every constructor/transform."""
import copy
import itertools
import os
import random
import tempfile

from common import Recorder, guarded, main
from gen import specs, build_fiber, build_tensor, spec_key, random_spec
from history import apply_op, op_universe, root_of
from spec.oracle import rb_problems, wf_problems, is_fiber

from fibertree import Fiber, Tensor, Payload

READ_OPS = ("read", "read_noalloc", "position")


def _ser(spec):
    return {str(k): (_ser(v) if isinstance(v, dict) else v) for k, v in spec.items()}


def _deser(spec):
    return {int(k): (_deser(v) if isinstance(v, dict) else v) for k, v in spec.items()}


def make(kind, spec, depth, n):
    """Tensors from every constructor / transform family (kind is a string)."""
    t = build_tensor(spec, depth, n)
    if kind == "fromFiber":
        return t
    if kind == "deepcopy":
        return copy.deepcopy(t)
    if kind == "fromUncompressed":
        return Tensor.fromUncompressed(t.getRankIds(), _nest(spec, depth, n))
    if kind == "empty":
        return Tensor(rank_ids=t.getRankIds(), shape=[n] * depth)
    if kind == "yaml":
        d = tempfile.mkdtemp(prefix="c02-")
        try:
            path = os.path.join(d, "t.yaml")
            t.dump(path)
            return Tensor.fromYAMLfile(path)
        finally:
            for f in os.listdir(d):
                os.remove(os.path.join(d, f))
            os.rmdir(d)
    if kind == "splitUniform":
        return t.splitUniform(2, depth=0)
    if kind == "splitEqual1":
        return t.splitEqual(1, depth=depth - 1)
    if kind == "swizzle" and depth >= 2:
        ids = t.getRankIds()
        return t.swizzleRanks(list(reversed(ids)))
    if kind == "flatten" and depth >= 2:
        return t.flattenRanks(depth=0, levels=1)
    if kind == "unflatten" and depth >= 2:
        return t.flattenRanks(depth=0, levels=1).unflattenRanks(depth=0, levels=1)
    if kind == "swap" and depth >= 2:
        return t.swapRanks(depth=0)
    if kind == "populated":
        return Tensor.makePopulated(t.getRankIds(), [2] * depth, initial=1)
    if kind == "fromSubFiber" and depth >= 2 and t.getRoot().payloads:
        # a live sub-tree handed to a second tensor (setRoot copies an owned root); the SOURCE tensor is checked too
        sub = Tensor.fromFiber(t.getRankIds()[1:], t.getRoot().payloads[0])
        sub._verif_source = t
        return sub
    return None


def _nest(spec, depth, n):
    if depth == 1:
        return [spec.get(c, 0) for c in range(n)]
    return [_nest(spec.get(c, {}), depth - 1, n) for c in range(n)]


SAME_SHAPE = ("fromFiber", "deepcopy", "fromUncompressed", "empty", "yaml")
KINDS = ["fromFiber", "deepcopy", "fromUncompressed", "empty", "yaml", "splitUniform", "splitEqual1", "swizzle", "flatten",
         "unflatten", "swap", "populated", "fromSubFiber"]


def check_tensor(rec, part, case, t, what):
    probs = rb_problems(t)
    if probs:
        rec.violation(part, "rank lists do not mirror the tree " + what, case, "RB " + what, probs)
        return False
    return True


def check_history(rec, part, kind, depth, n, spec, ops):
    case = dict(kind=kind, depth=depth, n=n, spec=_ser(spec), ops=ops)
    ok, t = guarded(rec, part, case, lambda: make(kind, spec, depth, n), "constructor/transform runs")
    if not ok or t is None:
        return
    if not check_tensor(rec, part, case, t, "after construction (%s)" % kind):
        return
    src = getattr(t, "_verif_source", None)
    if src is not None and not check_tensor(rec, part, case, src, "of the source tensor after handing a live fiber to fromFiber"):
        return
    d = len(t.getRankIds())
    for i, op in enumerate(ops):
        try:
            status, _ = apply_op(t, op, d)
        except Exception as e:
            rec.violation(part, "op raised %s" % type(e).__name__, dict(case, step=i), "ops succeed or reject cleanly", repr(e))
            return
        target = "" if op[0] in ("ref", "read", "read_noalloc", "position") else (
            "@leaf" if len(op[1]) == d - 1 else "@interior")
        if not check_tensor(rec, part, dict(case, step=i), t, "after %s%s" % (op[0], target)):
            return
    # per-rank consumers agree with the live tree
    ok, s = guarded(rec, part, case, lambda: [str(r) for r in t.ranks], "rank printing works")


def nested_populate(rec, part, depth, n, zspec, aspec, choices):
    """Populate loops updating any subset of the offered references (nested level by level)."""
    case = dict(kind="nested-populate", depth=depth, n=n, z=_ser(zspec), a=_ser(aspec), choices=choices)
    z = build_tensor(zspec, depth, n, name="Z")
    a = build_tensor(aspec, depth, n, name="A")
    cnt = [0]

    def walk(zf, af, d):
        for c, (zr, ar) in zf << af:
            if d == depth - 1:
                ch = choices[cnt[0] % len(choices)]
                cnt[0] += 1
                if ch == "assign":
                    zr <<= ar
                elif ch == "acc":
                    zr += ar
                elif ch == "reset":
                    zr <<= 0
            else:
                ch = choices[cnt[0] % len(choices)]
                if ch == "skip-subtree":
                    cnt[0] += 1
                    continue
                if ch == "touch-subtree":
                    # the body inserts a path below the offered sub-fiber itself (an insertion at depth) and writes nothing
                    cnt[0] += 1
                    zr.getPayloadRef(*([0] * (1 if d + 2 < depth else 1)))
                    continue
                walk(zr, ar, d + 1)
            probs = rb_problems(z)
            # inside a populate loop the offered (possibly still empty) sub-fibers are on top of the rank lists: RB must hold
            if probs:
                rec.violation(part, "rank lists wrong inside a populate body", case, "RB at every yield of a nested populate", probs)
                return False
        return True
    ok, _ = guarded(rec, part, case, lambda: walk(z.getRoot(), a.getRoot(), 0))
    if ok:
        check_tensor(rec, part, case, z, "after nested populate")
        check_tensor(rec, part, case, a, "of the source after nested populate")


def run(tier, seed):
    rec = Recorder("C02", tier, seed, budget_s=110 if tier == "quick" else 900)
    rnd = random.Random(seed)
    uni2 = op_universe(2, 2)
    d2 = list(specs(2, 2))
    # every constructor/transform on every depth-2 tree over 2 coordinates
    for kind in KINDS:
        for spec in d2:
            rec.case("constructors", (kind, spec_key(spec)), sample=dict(kind=kind, spec=_ser(spec)))
            check_history(rec, "constructors", kind, 2, 2, spec, [])
    # every op on every depth-2 tree (fromFiber and deepcopy)
    for kind in ("fromFiber", "deepcopy"):
        for spec in d2:
            if rec.out_of_time():
                break
            for op in uni2:
                rec.case("depth2-single", (kind, spec_key(spec), repr(op)))
                check_history(rec, "depth2-single", kind, 2, 2, spec, [op])
    # random histories at depth 2 and 3 from random constructors
    uni2b, uni3 = op_universe(2, 3), op_universe(3, 2)
    hist_len = 3 if tier == "quick" else 5
    for _ in range(1500 if tier == "quick" else 30000):
        if rec.out_of_time():
            break
        depth = rnd.choice([2, 2, 3])
        n = 3 if depth == 2 else 2
        spec = random_spec(rnd, depth, n)
        kind = rnd.choice(KINDS)
        ops = [rnd.choice(uni2b if depth == 2 else uni3) for _ in range(hist_len)]
        if kind not in SAME_SHAPE:
            ops = []     # coordinates/shape differ from the op universe: construction check only
        rec.case("random-history", (kind, spec_key(spec), repr(ops)))
        check_history(rec, "random-history", kind, depth, n, spec, ops)
    # nested populate loops
    bodies = [["assign"], ["leave"], ["acc", "leave"], ["reset", "assign"], ["leave", "assign", "leave"], ["skip-subtree", "assign"],
              ["assign", "skip-subtree", "leave"], ["touch-subtree"], ["touch-subtree", "assign", "leave"], ["leave", "touch-subtree"]]
    for depth, n, lim in ((2, 2, 1500 if tier == "quick" else None), (3, 2, 300 if tier == "quick" else 4000)):
        zs = list(specs(depth, n, vals=(0, 1), sub_limit=6)) if depth == 3 else d2
        as_ = zs
        pairs = list(itertools.product(zs, as_))
        rnd.shuffle(pairs)
        for zspec, aspec in (pairs if lim is None else pairs[:lim]):
            if rec.out_of_time():
                break
            for body in bodies:
                rec.case("nested-populate", (depth, spec_key(zspec), spec_key(aspec), tuple(body)))
                nested_populate(rec, "nested-populate", depth, n, zspec, aspec, body)
    # at scale: wider trees (8-16 coordinates per rank): constructors/transforms and short histories
    uni_w = {}
    for _ in range(30 if tier == "quick" else 400):
        if rec.out_of_time():
            break
        n = rnd.choice([8, 16])
        spec = random_spec(rnd, 2, n, p_present=rnd.choice([0.3, 0.7]))
        kind = rnd.choice(KINDS)
        ops = []
        if kind in SAME_SHAPE:
            if n not in uni_w:
                uni_w[n] = op_universe(2, n)
            ops = [rnd.choice(uni_w[n]) for _q in range(3)]
        rec.case("scale", (kind, spec_key(spec), repr(ops)))
        check_history(rec, "scale", kind, 2, n, spec, ops)
    return rec.result("every constructor/transform family on every depth-2 tree over 2 coordinates (explicit defaults, empty sub-fibers); every "
                      "op of the universe on each; seeded random histories at depth 2-3; nested populate loops over all depth-2 pairs and sampled "
                      "depth-3 pairs with 7 body patterns; plus seeded random wider trees at scale (8-16 coordinates per rank); RB recomputed by an independent "
                      "DFS after every step and at every yield")


def replay(case):
    rec = Recorder("C02", "replay", 0)
    if case.get("kind") == "nested-populate":
        nested_populate(rec, "replay", case["depth"], case["n"], _deser(case["z"]), _deser(case["a"]), case["choices"])
    else:
        check_history(rec, "replay", case["kind"], case["depth"], case["n"], _deser(case["spec"]), case["ops"])
    if rec.violations:
        v = rec.violations[0]
        return False, "REPRODUCED: %s: %s (observed %s)" % (v["what"], v["clause"], v["observed"])
    return True, "not reproduced"


if __name__ == "__main__":
    raise SystemExit(main(__import__("C02")))
