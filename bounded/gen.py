"""Small-scope enumerators of fibers and tensors (bounded stand-in).

A *spec* is a nested dict {coord: value | spec}; value 0 (the default) is an explicit default-valued payload,
an empty dict an explicitly empty sub-fiber.  Real objects are built through the public constructors only.
"""
import itertools
import random

from fibertree import Fiber, Tensor, Payload


def specs1(n, vals=(0, 1, 2), coords=None):
    """All depth-1 specs over coordinates 0..n-1 (each absent or one of vals)."""
    coords = list(range(n)) if coords is None else coords
    for combo in itertools.product([None] + list(vals), repeat=len(coords)):
        yield {c: v for c, v in zip(coords, combo) if v is not None}


def specs(depth, n, vals=(0, 1, 2), sub_limit=None):
    """All specs of the given depth; interior payloads range over all sub-specs (including the empty fiber)."""
    if depth == 1:
        yield from specs1(n, vals)
        return
    subs = list(specs(depth - 1, n, vals, sub_limit))
    if sub_limit is not None and len(subs) > sub_limit:
        # keep the structurally interesting ones first: empty, all-default, singletons, then a deterministic sample
        rnd = random.Random(1234 + depth * 17 + n)
        keep = subs[:1] + [s for s in subs if s and all(_all_default(v) for v in s.values())][:3]
        rest = [s for s in subs if s not in keep]
        rnd.shuffle(rest)
        subs = keep + rest[:max(0, sub_limit - len(keep))]
    for combo in itertools.product([None] + list(range(len(subs))), repeat=n):
        yield {c: subs[i] for c, i in enumerate(combo) if i is not None}


def _all_default(v):
    if isinstance(v, dict):
        return all(_all_default(x) for x in v.values())
    return v == 0


def random_spec(rnd, depth, n, vals=(0, 1, 2), p_present=0.6):
    out = {}
    for c in range(n):
        if rnd.random() < p_present:
            out[c] = rnd.choice(vals) if depth == 1 else random_spec(rnd, depth - 1, n, vals, p_present)
    return out


def build_fiber(spec, depth=None, default=0, shape=None):
    """Real Fiber from a spec (depth needed to build an empty fiber's rank structure only when used in a tensor)."""
    coords = sorted(spec)
    payloads = []
    for c in coords:
        p = spec[c]
        payloads.append(build_fiber(p, None if depth is None else depth - 1, default, shape) if isinstance(p, dict) else p)
    kw = {}
    if shape is not None:
        kw["shape"] = shape
    if default != 0 and not any(isinstance(spec[c], dict) for c in coords) and (depth in (None, 1)):
        kw["default"] = default
    return Fiber(coords, payloads, **kw)


RANK_IDS = ["M", "N", "K", "J"]


def build_tensor(spec, depth, n=None, default=0, rank_ids=None, shape=None, name="T"):
    rank_ids = rank_ids or RANK_IDS[:depth]
    f = build_fiber(spec, depth, default)
    if shape is None and n is not None:
        shape = [n] * depth
    t = Tensor.fromFiber(rank_ids=list(rank_ids), fiber=f, shape=shape, name=name, default=default)
    return t


def spec_depth(spec, fallback=1):
    for v in spec.values():
        if isinstance(v, dict):
            return 1 + spec_depth(v, fallback - 1 if fallback > 1 else 1)
        return 1
    return fallback


def spec_key(spec):
    return tuple((c, spec_key(v) if isinstance(v, dict) else v) for c, v in sorted(spec.items()))


def has_explicit_default(spec):
    for v in spec.values():
        if isinstance(v, dict):
            if not v or has_explicit_default(v):
                return True
        elif v == 0:
            return True
    return False


def scale_spec(rnd, vals=(0, 1, 2), count=None, maxcoord=None):
    """A depth-1 spec well outside the enumerated scopes: 10-80 stored elements, coordinates up to a few hundred."""
    count = count or rnd.randint(10, 80)
    maxcoord = maxcoord or rnd.choice([count + 5, 2 * count, 150, 400, 700])
    maxcoord = max(maxcoord, count + 1)
    coords = rnd.sample(range(maxcoord), count)
    return {c: rnd.choice(vals) for c in coords}, maxcoord
