"""A generated family of sum-of-products kernels written in the library's idiom (harness code, not repository code).

An expression is (out_indices, [operand_indices, ...]); a schedule is a loop order over the (possibly tiled) index variables.
The kernel co-iterates the factors with intersection, drives the output with populate and reduces with an in-place payload update.
"""
import itertools

from fibertree import Fiber, Tensor, Payload, Metrics

EXPRESSIONS = {
    "dot":        ("", ["k", "k"]),
    "matvec":     ("m", ["mk", "k"]),
    "matmul":     ("mn", ["mk", "kn"]),
    "elementwise": ("m", ["m", "m"]),
    "reduce1":    ("", ["m"]),
    "reduce2":    ("m", ["mk"]),
    "outer":      ("mn", ["m", "n"]),
    "three":      ("m", ["mk", "k", "k"]),
    "copy":       ("m", ["m"]),
    "elementwise2": ("mk", ["mk", "mk"]),
}


def dense_reference(expr, operands, sizes):
    out_idx, ins = expr
    allidx = sorted(set("".join(ins)) | set(out_idx))
    res = {}
    for vals in itertools.product(*[range(sizes[v]) for v in allidx]):
        env = dict(zip(allidx, vals))
        prod = 1
        for idxs, op in zip(ins, operands):
            prod *= op.get(tuple(env[v] for v in idxs), 0)
            if prod == 0:
                break
        if prod != 0:
            key = tuple(env[v] for v in out_idx)
            res[key] = res.get(key, 0) + prod
    return {k: v for k, v in res.items() if v != 0}


def make_tensor(name, idxs, content, sizes):
    ids = [v.upper() for v in idxs]
    if not ids:
        t = Tensor(rank_ids=[], name=name)
        return t
    t = Tensor(rank_ids=ids, shape=[sizes[v] for v in idxs], name=name)
    root = t.getRoot()
    for pt, val in sorted(content.items()):
        ref = root.getPayloadRef(*pt)
        if len(pt) == len(ids):
            ref <<= val           # a shorter point only reserves an (empty) sub-fiber
    return t


def tile(t, idxs, tiles):
    """Apply the uniform tilings consistently; returns (tensor, new index list) with X -> X1, X0."""
    new = list(idxs)
    for v, size in tiles.items():
        if v in new:
            rid = [r for r in t.getRankIds() if r == v.upper()][0]
            t = t.splitUniform(size, depth=t.getRankIds().index(rid))
            i = new.index(v)
            new[i:i + 1] = [v + "1", v + "0"]
    return t, new


def rank_name(v):
    # index variable 'k' -> rank id 'K'; tiled 'k1' -> 'K.1'
    return v[0].upper() + ("." + v[1] if len(v) > 1 else "")


def run_kernel(expr, contents, sizes, order, tiles=None, style="two-finger", collect=None, counters=None, preset_output=None):
    """Build the operands, swizzle them to the loop order, run the loop nest; returns the output content (point -> value).
    counters: dict filled with the numbers of executed loop bodies / payload operations (for C15)."""
    out_idx, ins = expr
    tiles = tiles or {}
    ops = []
    for n, (idxs, content) in enumerate(zip(ins, contents)):
        t = make_tensor("ABC"[n], idxs, content, sizes)
        t, new = tile(t, list(idxs), tiles)
        want = [v for v in order if v in new]
        if [rank_name(v) for v in want] != t.getRankIds():
            t = t.swizzleRanks([rank_name(v) for v in want])
        ops.append((t, want))
    zt = make_tensor("Z", out_idx, preset_output or {}, sizes)
    zt, znew = tile(zt, list(out_idx), tiles) if out_idx else (zt, [])
    zwant = [v for v in order if v in znew]
    if out_idx and [rank_name(v) for v in zwant] != zt.getRankIds():
        zt = zt.swizzleRanks([rank_name(v) for v in zwant])
    if counters is None:
        counters = {}
    counters.update(bodies=0, mul=0, add=0, update=0, iters={})

    def loop(level, z, fibers):
        """z: output fiber / payload reference at this level; fibers: current payloads of the inputs (fiber or value)."""
        if level == len(order):
            vals = [f for f in fibers]
            if style == "leader-follower" and any((v == 0) for v in vals):
                return                      # zero products filtered
            prod = vals[0]
            for v in vals[1:]:
                prod = prod * v
                counters["mul"] += 1
            before = z.value
            z += prod
            counters["update"] += 1
            if before != 0:
                counters["add"] += 1
            counters["bodies"] += 1
            return
        v = order[level]
        involved = [i for i, (t, want) in enumerate(ops) if v in want]
        in_out = v in zwant
        fs = [fibers[i] for i in involved]
        if len(fs) == 1:
            src = fs[0]
            unpack = lambda p: [p]
        elif style == "leader-follower":
            src = Fiber.intersection(*fs, style="leader-follower")
            unpack = lambda p: list(p.value if isinstance(p, Payload) else p)
        elif len(fs) == 2:
            src = fs[0] & fs[1]
            unpack = lambda p: list(p.value if isinstance(p, Payload) else p)
        else:
            src = Fiber.intersection(*fs)
            unpack = lambda p: list(p.value if isinstance(p, Payload) else p)
        it = (z << src) if in_out else src
        for c, p in it:
            if in_out:
                zsub, inp = p.value if isinstance(p, Payload) else p
            else:
                zsub, inp = z, p
            subs = unpack(inp)
            if style == "leader-follower" and any(isinstance(s, Fiber) and s.isEmpty() for s in subs):
                continue
            nf = list(fibers)
            for i, s in zip(involved, subs):
                nf[i] = s
            counters["iters"][v] = counters["iters"].get(v, 0) + 1
            loop(level + 1, zsub, nf)

    if collect:
        collect("begin")
    try:
        loop(0, zt.getRoot(), [t.getRoot() for t, _ in ops])
    finally:
        if collect:
            collect("end")
    # read the result back as a content map over the original output indices (tiled coordinates are absolute)
    return output_content(zt, zwant, out_idx), zt


def output_content(zt, zwant, out_idx):
    root = zt.getRoot()
    if not out_idx:
        v = root.value
        return {(): v} if v != 0 else {}
    res = {}

    def walk(f, d, acc):
        for c, p in zip(f.coords, f.payloads):
            if isinstance(p, Fiber):
                walk(p, d + 1, acc + [(zwant[d], c)])
            else:
                val = p.value if isinstance(p, Payload) else p
                if val != 0:
                    env = {}
                    for name, coord in acc + [(zwant[d], c)]:
                        if len(name) == 1 or name.endswith("0"):
                            env[name[0]] = coord
                    res[tuple(env[v] for v in out_idx)] = val
    walk(root, 0, [])
    return res


def loop_orders(expr, tiles):
    out_idx, ins = expr
    allidx = sorted(set("".join(ins)) | set(out_idx))
    vars_ = []
    for v in allidx:
        vars_ += [v + "1", v + "0"] if v in tiles else [v]
    for perm in itertools.permutations(vars_):
        okp = True
        for v in tiles:
            if perm.index(v + "1") > perm.index(v + "0"):
                okp = False
        if okp:
            yield list(perm)
